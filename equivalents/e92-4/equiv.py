"""Equivalence check for refactoring 4 (``ceos_alos2/xarray.py``: ``extract_encoding``,
``to_variable``, ``to_dataset``, ``to_datatree``).

Run as a script (``python equiv.py``) or through pytest. ``python equiv.py --record``
prints the observations of the code that is currently importable; the ``EXPECTED``
table below was recorded that way from the UNCHANGED code (HEAD).

dask is not needed: ``xr.Dataset.chunk`` is replaced by a recorder for the cases that
exercise the ``chunks`` parameter (one case keeps the real method and records whatever
it does in this environment).
"""

import contextlib
import pprint
import sys

import fsspec
import numpy as np
import xarray as xr

from ceos_alos2 import xarray as cx
from ceos_alos2.array import Array
from ceos_alos2.hierarchy import Group, Variable


def describe_exception(e):
    chain = []
    while e is not None:
        chain.append(f"{type(e).__name__}: {e}")
        e = e.__cause__ or e.__context__
    return chain


def guarded(func):
    def wrapper(*args, **kwargs):
        try:
            return func(*args, **kwargs)
        except BaseException as e:  # noqa: B902
            return {"raises": describe_exception(e)}

    return wrapper


# --------------------------------------------------------------------------------------
# fixtures

IMAGE = np.arange(24, dtype="uint16").reshape(4, 6) * 11
GAP = 4


def lazy_array(records_per_chunk=2, shape=IMAGE.shape, url="image", path="/eq4"):
    fs = fsspec.filesystem("dir", path=path, fs=fsspec.filesystem("memory"))
    rows = [row.astype(">u2").tobytes() for row in IMAGE]
    size = len(rows[0])
    with fs.open(url, mode="wb") as f:
        f.write(b"".join(b"\x00" * GAP + row for row in rows))
    byte_ranges = [((i + 1) * GAP + i * size, (i + 1) * (GAP + size)) for i in range(len(rows))]
    return Array(
        fs=fs,
        url=url,
        byte_ranges=byte_ranges[: shape[0]],
        shape=shape,
        dtype="uint16",
        type_code="IU2",
        records_per_chunk=records_per_chunk,
    )


class DuckVariable:
    """logs every attribute the code under test looks at"""

    def __init__(self, dims, data, attrs, chunks, sizes):
        self._values = dict(dims=dims, data=data, attrs=attrs, chunks=chunks, sizes=sizes)
        self.log = []

    def __getattr__(self, name):
        if name.startswith("_") or name == "log":
            raise AttributeError(name)
        self.log.append(name)
        try:
            value = self._values[name]
        except KeyError:
            raise AttributeError(name) from None
        if isinstance(value, Exception):
            raise value
        return value


class Minus1:
    """equal to -1 without being an int"""

    def __eq__(self, other):
        return other == -1

    def __hash__(self):
        return hash(-1)

    def __repr__(self):
        return "Minus1()"


# --------------------------------------------------------------------------------------
# extract_encoding


@guarded
def encoding_of(var):
    result = cx.extract_encoding(var)
    described = {"result": repr(result), "type": type(result).__name__}
    if isinstance(var, DuckVariable):
        described["accessed"] = var.log
        described["fresh"] = all(v is not var._values["chunks"] for v in result.values())
    return described


def duck(chunks, sizes=None):
    if sizes is None:
        sizes = {"y": 40, "x": 60, "z": 7}
    return DuckVariable(["y", "x"], np.zeros((2, 2)), {}, chunks, sizes)


def extract_encoding_cases():
    return {
        "numpy-1d": encoding_of(Variable("x", np.array([1], dtype="int8"), {})),
        "numpy-2d": encoding_of(Variable(["y", "x"], np.zeros((2, 3)), {"a": 1})),
        "numpy-0d": encoding_of(Variable([], np.array(1.5), {})),
        "array-1d": encoding_of(Variable("x", lazy_array(2, shape=(4,)), {})),
        "array-2d-1": encoding_of(Variable(["a", "b"], lazy_array(1), {})),
        "array-2d-3": encoding_of(Variable(["a", "b"], lazy_array(3), {})),
        "array-2d-minus-1": encoding_of(Variable(["a", "b"], lazy_array(-1), {})),
        "array-2d-default": encoding_of(Variable(["a", "b"], lazy_array(None), {})),
        "array-2d-auto": encoding_of(Variable(["a", "b"], lazy_array("auto"), {})),
        "array-2d-bytes": encoding_of(Variable(["a", "b"], lazy_array("20B"), {})),
        "array-3d": encoding_of(Variable(["a", "b", "c"], lazy_array(2, shape=(4, 3, 2)), {})),
        "array-fewer-dims": encoding_of(Variable(["a"], lazy_array(2), {})),
        "array-more-dims": encoding_of(Variable(["a", "b", "c"], lazy_array(2), {})),
        "array-repeated-dims": encoding_of(Variable(["a", "a"], lazy_array(2), {})),
        "duck-empty": encoding_of(duck({})),
        "duck-all-none": encoding_of(duck({"y": None, "x": None})),
        "duck-one-none": encoding_of(duck({"y": None, "x": 3})),
        "duck-first-set": encoding_of(duck({"y": 5, "x": None})),
        "duck-minus-1": encoding_of(duck({"y": -1, "x": -1})),
        "duck-none-and-minus-1": encoding_of(duck({"y": None, "x": -1})),
        "duck-all-set": encoding_of(duck({"y": 10, "x": 20})),
        "duck-all-set-no-sizes": encoding_of(duck({"y": 10, "x": 20}, sizes=KeyError("boom"))),
        "duck-none-no-sizes": encoding_of(duck({"y": 10, "x": None}, sizes=KeyError("boom"))),
        "duck-missing-size": encoding_of(duck({"y": 10, "w": None})),
        "duck-missing-size-not-needed": encoding_of(duck({"w": 10, "y": -1})),
        "duck-zero": encoding_of(duck({"y": 0, "x": 0})),
        "duck-false": encoding_of(duck({"y": False, "x": True})),
        "duck-float-minus-1": encoding_of(duck({"y": -1.0, "x": 2.5})),
        "duck-np-minus-1": encoding_of(duck({"y": np.int64(-1), "x": np.int64(4)})),
        "duck-minus-1-like": encoding_of(duck({"y": Minus1(), "x": 1})),
        "duck-tuple-chunks": encoding_of(duck({"y": (2, 2), "x": None})),
        "duck-array-chunks": encoding_of(duck({"y": np.array([1, 2]), "x": 1})),
        "duck-str": encoding_of(duck({"y": "auto", "x": "-1"})),
        "duck-non-str-dims": encoding_of(duck({0: None, (1, 2): 5}, sizes={0: 9, (1, 2): 8})),
        "duck-chunks-raises": encoding_of(duck(RuntimeError("no chunks"))),
        "duck-chunks-list": encoding_of(duck([1, 2])),
        "duck-chunks-none": encoding_of(duck(None)),
    }


# --------------------------------------------------------------------------------------
# to_variable


def describe_variable(v, load=True):
    described = {
        "type": type(v).__name__,
        "dims": v.dims,
        "shape": v.shape,
        "dtype": str(v.dtype),
        "attrs": repr(v.attrs),
        "encoding": repr(v.encoding),
        "in-memory": v._in_memory,
        "data-types": data_types(v._data),
    }
    if load:
        described["values"] = repr(np.asarray(v.values).tolist())
    return described


def data_types(data):
    chain = []
    while True:
        chain.append(type(data).__name__)
        if isinstance(data, cx.LazilyIndexedWrapper):
            chain.append(f"lock={type(data.lock).__name__}")
        if isinstance(data, (np.ndarray, Array)) or not hasattr(data, "array"):
            return chain
        data = data.array


@guarded
def variable_of(var, load=True):
    result = cx.to_variable(var)
    described = describe_variable(result, load=load)
    if isinstance(var, DuckVariable):
        described["accessed"] = var.log
    else:
        described["same-attrs-object"] = result.attrs is var.attrs
        lazy = result._data
        if isinstance(var.data, Array):
            described["wraps-same-array"] = lazy.array.array is var.data
        else:
            described["same-data-object"] = lazy is var.data or np.shares_memory(lazy, var.data)
    return described


def to_variable_cases():
    arr = lazy_array(2)
    observations = {
        "numpy-1d": variable_of(Variable("x", np.array([1, 2], dtype="int8"), {"a": 1})),
        "numpy-2d": variable_of(Variable(["y", "x"], np.arange(6.0).reshape(2, 3), {})),
        "numpy-0d": variable_of(Variable([], np.array(2.5), {"units": "m"})),
        "numpy-datetime": variable_of(
            Variable("t", np.array(["2020-01-01", "2021-06-01"], dtype="datetime64[ns]"), {})
        ),
        "numpy-str": variable_of(Variable("s", np.array(["a", "bc"]), {})),
        "list-data": variable_of(Variable("x", [1, 2, 3], {})),
        "lazy-2d": variable_of(Variable(["rows", "cols"], arr, {"b": 3})),
        "lazy-2d-auto": variable_of(Variable(["rows", "cols"], lazy_array("auto"), {})),
        "lazy-2d-all": variable_of(Variable(["rows", "cols"], lazy_array(-1), {})),
        "lazy-nested-attrs": variable_of(Variable(["rows", "cols"], arr, {"a": {"b": [1]}})),
        "error-dims-mismatch": variable_of(Variable(["x"], np.zeros((2, 2)), {})),
        "error-lazy-dims-mismatch": variable_of(Variable(["x"], arr, {}), load=False),
        "error-attrs-not-mapping": variable_of(Variable("x", np.zeros(2), 5)),
        "duck-numpy": variable_of(DuckVariable(["x"], np.arange(3), {"k": "v"}, {}, {"x": 3})),
        "duck-lazy": variable_of(
            DuckVariable(["r", "c"], arr, {}, {"r": 2, "c": -1}, {"r": 4, "c": 6})
        ),
        "duck-no-data": variable_of(DuckVariable(["x"], AttributeError("data"), {}, {}, {})),
        "duck-no-dims": variable_of(DuckVariable(AttributeError("dims"), np.arange(3), {}, {}, {})),
        "duck-no-attrs": variable_of(DuckVariable(["x"], np.arange(3), KeyError("attrs"), {}, {})),
        "duck-no-chunks": variable_of(
            DuckVariable(["x"], np.arange(3), {}, RuntimeError("chunks"), {})
        ),
    }

    # the lazily indexed variable reads through the wrapper
    lazy = cx.to_variable(Variable(["rows", "cols"], arr, {}))
    observations["lazy-indexing"] = {
        "[1:3, ::2]": repr(lazy[1:3, ::2].values.tolist()),
        "[-1]": repr(lazy[-1].values.tolist()),
        "[[0, 3], 1]": repr(lazy[[0, 3], 1].values.tolist()),
        "still-lazy": lazy._in_memory,
    }
    # every call creates its own lock
    other = cx.to_variable(Variable(["rows", "cols"], arr, {}))
    observations["locks-distinct"] = lazy._data.array.lock is not other._data.array.lock
    return observations


# --------------------------------------------------------------------------------------
# to_dataset / to_datatree


@contextlib.contextmanager
def recorded_chunk(calls):
    original = xr.Dataset.chunk

    def chunk(self, chunks):
        calls.append((sorted(self.variables), repr(chunks), type(chunks).__name__))
        return self.assign_attrs(chunked_with=repr(chunks))

    xr.Dataset.chunk = chunk
    try:
        yield
    finally:
        xr.Dataset.chunk = original


def describe_dataset(ds):
    return {
        "type": type(ds).__name__,
        "sizes": repr(dict(ds.sizes)),
        "data_vars": list(ds.data_vars),
        "coords": list(ds.coords),
        "attrs": repr(ds.attrs),
        "variables": {name: describe_variable(var) for name, var in ds.variables.items()},
    }


def groups():
    arr = lazy_array(2)
    flat = dict(
        a=Variable("x", np.array([1, 2, 3], dtype="int8"), {"a": 1}),
        b=Variable(["x", "y"], np.arange(12).reshape(3, 4), {"b": "abc"}),
    )
    image = dict(
        data=Variable(["rows", "cols"], arr, {"units": "dn"}),
        rows=Variable("rows", np.arange(4) * 2.5, {}),
        t=Variable("rows", np.arange(4, dtype="int64"), {"long_name": "time"}),
    )
    return {
        "empty": Group(path=None, url=None, data={}, attrs={}),
        "attrs-only": Group(path=None, url="u", data={}, attrs={"a": 1, "b": [2], "c": "3"}),
        "flat": Group(path=None, url=None, data=flat, attrs={}),
        "coords": Group(path=None, url=None, data=flat, attrs={"coordinates": ["b"], "k": 1}),
        "coords-all": Group(path=None, url=None, data=flat, attrs={"coordinates": ["b", "a"]}),
        "coords-empty": Group(path=None, url=None, data=flat, attrs={"coordinates": []}),
        "coords-str": Group(path=None, url=None, data=flat, attrs={"coordinates": "a"}),
        "coords-missing": Group(path=None, url=None, data=flat, attrs={"coordinates": ["zz"]}),
        "image": Group(path=None, url=None, data=image, attrs={"coordinates": ["t"]}),
        "conflicting-sizes": Group(
            path=None,
            url=None,
            data=dict(a=Variable("x", np.arange(3), {}), b=Variable("x", np.arange(4), {})),
            attrs={},
        ),
        "nested": Group(
            path=None,
            url=None,
            data={
                "v": Variable("p", np.arange(2), {}),
                "imagery": Group(path=None, url=None, data=image, attrs={"coordinates": ["t"]}),
                "meta": Group(
                    path=None,
                    url=None,
                    data={
                        "deep": Group(path=None, url=None, data=flat, attrs={"level": 2}),
                        "w": Variable("q", np.arange(3.0), {}),
                    },
                    attrs={"level": 1},
                ),
            },
            attrs={"root": True},
        ),
        "nested-misaligned": Group(
            path=None,
            url=None,
            data={
                "v": Variable("x", np.arange(2), {}),
                "child": Group(path=None, url=None, data=flat, attrs={}),
            },
            attrs={},
        ),
        "non-root": Group(path="sub/group", url=None, data=flat, attrs={"n": 1}),
        "non-root-nested": Group(
            path="/sub",
            url=None,
            data={"inner": Group(path=None, url=None, data=flat, attrs={})},
            attrs={},
        ),
    }


CHUNKS = {
    "none": None,
    "empty": {},
    "x": {"x": 1},
    "x-y-unknown": {"x": 1, "y": 2, "unknown": 5},
    "rows-cols": {"rows": 2, "cols": -1},
    "only-unknown": {"nope": 3},
    "int": -1,
    "auto": "auto",
}


@guarded
def dataset_of(group, chunks):
    calls = []
    attrs_before = repr(group.attrs)
    with recorded_chunk(calls):
        try:
            ds = cx.to_dataset(group, chunks=chunks)
        except Exception as e:
            result = {"raises": describe_exception(e)}
        else:
            result = describe_dataset(ds)
    result["chunk-calls"] = calls
    result["group-attrs-unchanged"] = repr(group.attrs) == attrs_before
    return result


def to_dataset_cases():
    observations = {}
    for group_name, group in groups().items():
        for chunks_name, chunks in CHUNKS.items():
            if group_name not in ("flat", "image", "coords") and chunks_name not in ("none", "x"):
                continue
            observations[f"{group_name}-{chunks_name}"] = dataset_of(group, chunks)

    observations["positional-chunks"] = guarded(
        lambda: describe_dataset(cx.to_dataset(groups()["flat"], None))
    )()
    observations["default-chunks"] = guarded(
        lambda: describe_dataset(cx.to_dataset(groups()["coords"]))
    )()
    # without the recorder: whatever `Dataset.chunk` does here (dask may be missing)
    observations["real-chunk"] = guarded(
        lambda: describe_dataset(cx.to_dataset(groups()["flat"], chunks={"x": 1}))
    )()
    observations["real-chunk-empty"] = guarded(
        lambda: describe_dataset(cx.to_dataset(groups()["flat"], chunks={}))
    )()
    return observations


def describe_tree(tree):
    return {
        "type": type(tree).__name__,
        "paths": [node.path for node in tree.subtree],
        "datasets": {node.path: describe_dataset(node.to_dataset()) for node in tree.subtree},
    }


@guarded
def tree_of(group, chunks):
    chunk_calls = []
    dataset_calls = []
    original = cx.to_dataset

    def to_dataset(group, chunks=None):
        dataset_calls.append((group.path, sorted(group.data), repr(chunks)))
        return original(group, chunks=chunks)

    cx.to_dataset = to_dataset
    try:
        with recorded_chunk(chunk_calls):
            try:
                tree = cx.to_datatree(group, chunks=chunks)
            except Exception as e:
                result = {"raises": describe_exception(e)}
            else:
                result = describe_tree(tree)
    finally:
        cx.to_dataset = original

    result["to_dataset-calls"] = dataset_calls
    result["chunk-calls"] = chunk_calls
    return result


def to_datatree_cases():
    observations = {}
    for group_name, group in groups().items():
        for chunks_name in ("none", "x-y-unknown", "int"):
            if group_name not in ("nested", "flat") and chunks_name == "int":
                continue
            observations[f"{group_name}-{chunks_name}"] = tree_of(group, CHUNKS[chunks_name])
    observations["default-chunks"] = guarded(
        lambda: describe_tree(cx.to_datatree(groups()["nested"]))
    )()
    observations["positional-chunks"] = guarded(
        lambda: describe_tree(cx.to_datatree(groups()["flat"], None))
    )()
    observations["not-a-group"] = guarded(lambda: describe_tree(cx.to_datatree({"a": 1})))()
    return observations


def open_alos2_case():
    # `io.open` replaced: the wiring of `open_alos2` around the touched functions
    calls = []
    original = cx.io.open

    def fake_open(path, **kwargs):
        calls.append((path, kwargs))
        return groups()["nested"]

    cx.io.open = fake_open
    try:
        tree = cx.open_alos2("some/path", backend_options={"records_per_chunk": 3})
        described = describe_tree(tree)
        default = [node.path for node in cx.open_alos2("other").subtree]
    finally:
        cx.io.open = original
    return {"tree": described, "default": default, "calls": repr(calls)}


CASES = {
    "extract_encoding": extract_encoding_cases,
    "to_variable": to_variable_cases,
    "to_dataset": to_dataset_cases,
    "to_datatree": to_datatree_cases,
    "open_alos2": open_alos2_case,
}


def collect():
    return {name: case() for name, case in CASES.items()}


# BEGIN EXPECTED
EXPECTED = {'extract_encoding': {'numpy-1d': {'result': '{}', 'type': 'dict'},
                      'numpy-2d': {'result': '{}', 'type': 'dict'},
                      'numpy-0d': {'result': '{}', 'type': 'dict'},
                      'array-1d': {'result': "{'preferred_chunksizes': {'x': 2}}", 'type': 'dict'},
                      'array-2d-1': {'result': "{'preferred_chunksizes': {'a': 1, 'b': 6}}",
                                     'type': 'dict'},
                      'array-2d-3': {'result': "{'preferred_chunksizes': {'a': 3, 'b': 6}}",
                                     'type': 'dict'},
                      'array-2d-minus-1': {'result': "{'preferred_chunksizes': {'a': 4, 'b': 6}}",
                                           'type': 'dict'},
                      'array-2d-default': {'result': "{'preferred_chunksizes': {'a': 1024, 'b': "
                                                     '6}}',
                                           'type': 'dict'},
                      'array-2d-auto': {'result': "{'preferred_chunksizes': {'a': np.int64(4), "
                                                  "'b': 6}}",
                                        'type': 'dict'},
                      'array-2d-bytes': {'result': "{'preferred_chunksizes': {'a': np.int64(2), "
                                                   "'b': 6}}",
                                         'type': 'dict'},
                      'array-3d': {'result': "{'preferred_chunksizes': {'a': 2, 'b': 3, 'c': 2}}",
                                   'type': 'dict'},
                      'array-fewer-dims': {'result': "{'preferred_chunksizes': {'a': 2}}",
                                           'type': 'dict'},
                      'array-more-dims': {'result': "{'preferred_chunksizes': {'a': 2, 'b': 6}}",
                                          'type': 'dict'},
                      'array-repeated-dims': {'result': "{'preferred_chunksizes': {'a': 6}}",
                                              'type': 'dict'},
                      'duck-empty': {'result': '{}',
                                     'type': 'dict',
                                     'accessed': ['chunks'],
                                     'fresh': True},
                      'duck-all-none': {'result': '{}',
                                        'type': 'dict',
                                        'accessed': ['chunks'],
                                        'fresh': True},
                      'duck-one-none': {'result': "{'preferred_chunksizes': {'y': 40, 'x': 3}}",
                                        'type': 'dict',
                                        'accessed': ['chunks', 'sizes'],
                                        'fresh': True},
                      'duck-first-set': {'result': "{'preferred_chunksizes': {'y': 5, 'x': 60}}",
                                         'type': 'dict',
                                         'accessed': ['chunks', 'sizes'],
                                         'fresh': True},
                      'duck-minus-1': {'result': "{'preferred_chunksizes': {'y': 40, 'x': 60}}",
                                       'type': 'dict',
                                       'accessed': ['chunks', 'sizes', 'sizes'],
                                       'fresh': True},
                      'duck-none-and-minus-1': {'result': "{'preferred_chunksizes': {'y': 40, 'x': "
                                                          '60}}',
                                                'type': 'dict',
                                                'accessed': ['chunks', 'sizes', 'sizes'],
                                                'fresh': True},
                      'duck-all-set': {'result': "{'preferred_chunksizes': {'y': 10, 'x': 20}}",
                                       'type': 'dict',
                                       'accessed': ['chunks'],
                                       'fresh': True},
                      'duck-all-set-no-sizes': {'result': "{'preferred_chunksizes': {'y': 10, 'x': "
                                                          '20}}',
                                                'type': 'dict',
                                                'accessed': ['chunks'],
                                                'fresh': True},
                      'duck-none-no-sizes': {'raises': ["KeyError: 'boom'"]},
                      'duck-missing-size': {'raises': ["KeyError: 'w'"]},
                      'duck-missing-size-not-needed': {'result': "{'preferred_chunksizes': {'w': "
                                                                 "10, 'y': 40}}",
                                                       'type': 'dict',
                                                       'accessed': ['chunks', 'sizes'],
                                                       'fresh': True},
                      'duck-zero': {'result': "{'preferred_chunksizes': {'y': 0, 'x': 0}}",
                                    'type': 'dict',
                                    'accessed': ['chunks'],
                                    'fresh': True},
                      'duck-false': {'result': "{'preferred_chunksizes': {'y': False, 'x': True}}",
                                     'type': 'dict',
                                     'accessed': ['chunks'],
                                     'fresh': True},
                      'duck-float-minus-1': {'result': "{'preferred_chunksizes': {'y': 40, 'x': "
                                                       '2.5}}',
                                             'type': 'dict',
                                             'accessed': ['chunks', 'sizes'],
                                             'fresh': True},
                      'duck-np-minus-1': {'result': "{'preferred_chunksizes': {'y': 40, 'x': "
                                                    'np.int64(4)}}',
                                          'type': 'dict',
                                          'accessed': ['chunks', 'sizes'],
                                          'fresh': True},
                      'duck-minus-1-like': {'result': "{'preferred_chunksizes': {'y': 40, 'x': 1}}",
                                            'type': 'dict',
                                            'accessed': ['chunks', 'sizes'],
                                            'fresh': True},
                      'duck-tuple-chunks': {'result': "{'preferred_chunksizes': {'y': (2, 2), 'x': "
                                                      '60}}',
                                            'type': 'dict',
                                            'accessed': ['chunks', 'sizes'],
                                            'fresh': True},
                      'duck-array-chunks': {'raises': ['ValueError: The truth value of an array '
                                                       'with more than one element is ambiguous. '
                                                       'Use a.any() or a.all()']},
                      'duck-str': {'result': "{'preferred_chunksizes': {'y': 'auto', 'x': '-1'}}",
                                   'type': 'dict',
                                   'accessed': ['chunks'],
                                   'fresh': True},
                      'duck-non-str-dims': {'result': "{'preferred_chunksizes': {0: 9, (1, 2): 5}}",
                                            'type': 'dict',
                                            'accessed': ['chunks', 'sizes'],
                                            'fresh': True},
                      'duck-chunks-raises': {'raises': ['RuntimeError: no chunks']},
                      'duck-chunks-list': {'raises': ["AttributeError: 'list' object has no "
                                                      "attribute 'values'"]},
                      'duck-chunks-none': {'raises': ["AttributeError: 'NoneType' object has no "
                                                      "attribute 'values'"]}},
 'to_variable': {'numpy-1d': {'type': 'Variable',
                              'dims': ('x',),
                              'shape': (2,),
                              'dtype': 'int8',
                              'attrs': "{'a': 1}",
                              'encoding': '{}',
                              'in-memory': True,
                              'data-types': ['ndarray'],
                              'values': '[1, 2]',
                              'same-attrs-object': False,
                              'same-data-object': True},
                 'numpy-2d': {'type': 'Variable',
                              'dims': ('y', 'x'),
                              'shape': (2, 3),
                              'dtype': 'float64',
                              'attrs': '{}',
                              'encoding': '{}',
                              'in-memory': True,
                              'data-types': ['ndarray'],
                              'values': '[[0.0, 1.0, 2.0], [3.0, 4.0, 5.0]]',
                              'same-attrs-object': False,
                              'same-data-object': True},
                 'numpy-0d': {'type': 'Variable',
                              'dims': (),
                              'shape': (),
                              'dtype': 'float64',
                              'attrs': "{'units': 'm'}",
                              'encoding': '{}',
                              'in-memory': True,
                              'data-types': ['ndarray'],
                              'values': '2.5',
                              'same-attrs-object': False,
                              'same-data-object': True},
                 'numpy-datetime': {'type': 'Variable',
                                    'dims': ('t',),
                                    'shape': (2,),
                                    'dtype': 'datetime64[ns]',
                                    'attrs': '{}',
                                    'encoding': '{}',
                                    'in-memory': True,
                                    'data-types': ['ndarray'],
                                    'values': '[1577836800000000000, 1622505600000000000]',
                                    'same-attrs-object': False,
                                    'same-data-object': True},
                 'numpy-str': {'type': 'Variable',
                               'dims': ('s',),
                               'shape': (2,),
                               'dtype': '<U2',
                               'attrs': '{}',
                               'encoding': '{}',
                               'in-memory': True,
                               'data-types': ['ndarray'],
                               'values': "['a', 'bc']",
                               'same-attrs-object': False,
                               'same-data-object': True},
                 'list-data': {'type': 'Variable',
                               'dims': ('x',),
                               'shape': (3,),
                               'dtype': 'int64',
                               'attrs': '{}',
                               'encoding': '{}',
                               'in-memory': True,
                               'data-types': ['ndarray'],
                               'values': '[1, 2, 3]',
                               'same-attrs-object': False,
                               'same-data-object': False},
                 'lazy-2d': {'type': 'Variable',
                             'dims': ('rows', 'cols'),
                             'shape': (4, 6),
                             'dtype': 'uint16',
                             'attrs': "{'b': 3}",
                             'encoding': "{'preferred_chunksizes': {'rows': 2, 'cols': 6}}",
                             'in-memory': False,
                             'data-types': ['LazilyIndexedArray',
                                            'LazilyIndexedWrapper',
                                            'lock=SerializableLock',
                                            'Array'],
                             'values': '[[0, 11, 22, 33, 44, 55], [66, 77, 88, 99, 110, 121], '
                                       '[132, 143, 154, 165, 176, 187], [198, 209, 220, 231, 242, '
                                       '253]]',
                             'same-attrs-object': False,
                             'wraps-same-array': True},
                 'lazy-2d-auto': {'type': 'Variable',
                                  'dims': ('rows', 'cols'),
                                  'shape': (4, 6),
                                  'dtype': 'uint16',
                                  'attrs': '{}',
                                  'encoding': "{'preferred_chunksizes': {'rows': np.int64(4), "
                                              "'cols': 6}}",
                                  'in-memory': False,
                                  'data-types': ['LazilyIndexedArray',
                                                 'LazilyIndexedWrapper',
                                                 'lock=SerializableLock',
                                                 'Array'],
                                  'values': '[[0, 11, 22, 33, 44, 55], [66, 77, 88, 99, 110, 121], '
                                            '[132, 143, 154, 165, 176, 187], [198, 209, 220, 231, '
                                            '242, 253]]',
                                  'same-attrs-object': False,
                                  'wraps-same-array': True},
                 'lazy-2d-all': {'type': 'Variable',
                                 'dims': ('rows', 'cols'),
                                 'shape': (4, 6),
                                 'dtype': 'uint16',
                                 'attrs': '{}',
                                 'encoding': "{'preferred_chunksizes': {'rows': 4, 'cols': 6}}",
                                 'in-memory': False,
                                 'data-types': ['LazilyIndexedArray',
                                                'LazilyIndexedWrapper',
                                                'lock=SerializableLock',
                                                'Array'],
                                 'values': '[[0, 11, 22, 33, 44, 55], [66, 77, 88, 99, 110, 121], '
                                           '[132, 143, 154, 165, 176, 187], [198, 209, 220, 231, '
                                           '242, 253]]',
                                 'same-attrs-object': False,
                                 'wraps-same-array': True},
                 'lazy-nested-attrs': {'type': 'Variable',
                                       'dims': ('rows', 'cols'),
                                       'shape': (4, 6),
                                       'dtype': 'uint16',
                                       'attrs': "{'a': {'b': [1]}}",
                                       'encoding': "{'preferred_chunksizes': {'rows': 2, 'cols': "
                                                   '6}}',
                                       'in-memory': False,
                                       'data-types': ['LazilyIndexedArray',
                                                      'LazilyIndexedWrapper',
                                                      'lock=SerializableLock',
                                                      'Array'],
                                       'values': '[[0, 11, 22, 33, 44, 55], [66, 77, 88, 99, 110, '
                                                 '121], [132, 143, 154, 165, 176, 187], [198, 209, '
                                                 '220, 231, 242, 253]]',
                                       'same-attrs-object': False,
                                       'wraps-same-array': True},
                 'error-dims-mismatch': {'raises': ["ValueError: dimensions ('x',) must have the "
                                                    'same length as the number of data dimensions, '
                                                    'ndim=2']},
                 'error-lazy-dims-mismatch': {'raises': ["ValueError: dimensions ('x',) must have "
                                                         'the same length as the number of data '
                                                         'dimensions, ndim=2']},
                 'error-attrs-not-mapping': {'raises': ["TypeError: 'int' object is not iterable"]},
                 'duck-numpy': {'type': 'Variable',
                                'dims': ('x',),
                                'shape': (3,),
                                'dtype': 'int64',
                                'attrs': "{'k': 'v'}",
                                'encoding': '{}',
                                'in-memory': True,
                                'data-types': ['ndarray'],
                                'values': '[0, 1, 2]',
                                'accessed': ['data', 'data', 'dims', 'attrs', 'chunks']},
                 'duck-lazy': {'type': 'Variable',
                               'dims': ('r', 'c'),
                               'shape': (4, 6),
                               'dtype': 'uint16',
                               'attrs': '{}',
                               'encoding': "{'preferred_chunksizes': {'r': 2, 'c': 6}}",
                               'in-memory': False,
                               'data-types': ['LazilyIndexedArray',
                                              'LazilyIndexedWrapper',
                                              'lock=SerializableLock',
                                              'Array'],
                               'values': '[[0, 11, 22, 33, 44, 55], [66, 77, 88, 99, 110, 121], '
                                         '[132, 143, 154, 165, 176, 187], [198, 209, 220, 231, '
                                         '242, 253]]',
                               'accessed': ['data', 'data', 'dims', 'attrs', 'chunks', 'sizes']},
                 'duck-no-data': {'raises': ['AttributeError: data']},
                 'duck-no-dims': {'raises': ['AttributeError: dims']},
                 'duck-no-attrs': {'raises': ["KeyError: 'attrs'"]},
                 'duck-no-chunks': {'raises': ['RuntimeError: chunks']},
                 'lazy-indexing': {'[1:3, ::2]': '[[66, 88, 110], [132, 154, 176]]',
                                   '[-1]': '[198, 209, 220, 231, 242, 253]',
                                   '[[0, 3], 1]': '[11, 209]',
                                   'still-lazy': False},
                 'locks-distinct': True},
 'to_dataset': {'empty-none': {'type': 'Dataset',
                               'sizes': '{}',
                               'data_vars': [],
                               'coords': [],
                               'attrs': '{}',
                               'variables': {},
                               'chunk-calls': [],
                               'group-attrs-unchanged': True},
                'empty-x': {'type': 'Dataset',
                            'sizes': '{}',
                            'data_vars': [],
                            'coords': [],
                            'attrs': "{'chunked_with': '{}'}",
                            'variables': {},
                            'chunk-calls': [([], '{}', 'dict')],
                            'group-attrs-unchanged': True},
                'attrs-only-none': {'type': 'Dataset',
                                    'sizes': '{}',
                                    'data_vars': [],
                                    'coords': [],
                                    'attrs': "{'a': 1, 'b': [2], 'c': '3'}",
                                    'variables': {},
                                    'chunk-calls': [],
                                    'group-attrs-unchanged': True},
                'attrs-only-x': {'type': 'Dataset',
                                 'sizes': '{}',
                                 'data_vars': [],
                                 'coords': [],
                                 'attrs': "{'a': 1, 'b': [2], 'c': '3', 'chunked_with': '{}'}",
                                 'variables': {},
                                 'chunk-calls': [([], '{}', 'dict')],
                                 'group-attrs-unchanged': True},
                'flat-none': {'type': 'Dataset',
                              'sizes': "{'x': 3, 'y': 4}",
                              'data_vars': ['a', 'b'],
                              'coords': [],
                              'attrs': '{}',
                              'variables': {'a': {'type': 'Variable',
                                                  'dims': ('x',),
                                                  'shape': (3,),
                                                  'dtype': 'int8',
                                                  'attrs': "{'a': 1}",
                                                  'encoding': '{}',
                                                  'in-memory': True,
                                                  'data-types': ['ndarray'],
                                                  'values': '[1, 2, 3]'},
                                            'b': {'type': 'Variable',
                                                  'dims': ('x', 'y'),
                                                  'shape': (3, 4),
                                                  'dtype': 'int64',
                                                  'attrs': "{'b': 'abc'}",
                                                  'encoding': '{}',
                                                  'in-memory': True,
                                                  'data-types': ['ndarray'],
                                                  'values': '[[0, 1, 2, 3], [4, 5, 6, 7], [8, 9, '
                                                            '10, 11]]'}},
                              'chunk-calls': [],
                              'group-attrs-unchanged': True},
                'flat-empty': {'type': 'Dataset',
                               'sizes': "{'x': 3, 'y': 4}",
                               'data_vars': ['a', 'b'],
                               'coords': [],
                               'attrs': "{'chunked_with': '{}'}",
                               'variables': {'a': {'type': 'Variable',
                                                   'dims': ('x',),
                                                   'shape': (3,),
                                                   'dtype': 'int8',
                                                   'attrs': "{'a': 1}",
                                                   'encoding': '{}',
                                                   'in-memory': True,
                                                   'data-types': ['ndarray'],
                                                   'values': '[1, 2, 3]'},
                                             'b': {'type': 'Variable',
                                                   'dims': ('x', 'y'),
                                                   'shape': (3, 4),
                                                   'dtype': 'int64',
                                                   'attrs': "{'b': 'abc'}",
                                                   'encoding': '{}',
                                                   'in-memory': True,
                                                   'data-types': ['ndarray'],
                                                   'values': '[[0, 1, 2, 3], [4, 5, 6, 7], [8, 9, '
                                                             '10, 11]]'}},
                               'chunk-calls': [(['a', 'b'], '{}', 'dict')],
                               'group-attrs-unchanged': True},
                'flat-x': {'type': 'Dataset',
                           'sizes': "{'x': 3, 'y': 4}",
                           'data_vars': ['a', 'b'],
                           'coords': [],
                           'attrs': '{\'chunked_with\': "{\'x\': 1}"}',
                           'variables': {'a': {'type': 'Variable',
                                               'dims': ('x',),
                                               'shape': (3,),
                                               'dtype': 'int8',
                                               'attrs': "{'a': 1}",
                                               'encoding': '{}',
                                               'in-memory': True,
                                               'data-types': ['ndarray'],
                                               'values': '[1, 2, 3]'},
                                         'b': {'type': 'Variable',
                                               'dims': ('x', 'y'),
                                               'shape': (3, 4),
                                               'dtype': 'int64',
                                               'attrs': "{'b': 'abc'}",
                                               'encoding': '{}',
                                               'in-memory': True,
                                               'data-types': ['ndarray'],
                                               'values': '[[0, 1, 2, 3], [4, 5, 6, 7], [8, 9, 10, '
                                                         '11]]'}},
                           'chunk-calls': [(['a', 'b'], "{'x': 1}", 'dict')],
                           'group-attrs-unchanged': True},
                'flat-x-y-unknown': {'type': 'Dataset',
                                     'sizes': "{'x': 3, 'y': 4}",
                                     'data_vars': ['a', 'b'],
                                     'coords': [],
                                     'attrs': '{\'chunked_with\': "{\'x\': 1, \'y\': 2}"}',
                                     'variables': {'a': {'type': 'Variable',
                                                         'dims': ('x',),
                                                         'shape': (3,),
                                                         'dtype': 'int8',
                                                         'attrs': "{'a': 1}",
                                                         'encoding': '{}',
                                                         'in-memory': True,
                                                         'data-types': ['ndarray'],
                                                         'values': '[1, 2, 3]'},
                                                   'b': {'type': 'Variable',
                                                         'dims': ('x', 'y'),
                                                         'shape': (3, 4),
                                                         'dtype': 'int64',
                                                         'attrs': "{'b': 'abc'}",
                                                         'encoding': '{}',
                                                         'in-memory': True,
                                                         'data-types': ['ndarray'],
                                                         'values': '[[0, 1, 2, 3], [4, 5, 6, 7], '
                                                                   '[8, 9, 10, 11]]'}},
                                     'chunk-calls': [(['a', 'b'], "{'x': 1, 'y': 2}", 'dict')],
                                     'group-attrs-unchanged': True},
                'flat-rows-cols': {'type': 'Dataset',
                                   'sizes': "{'x': 3, 'y': 4}",
                                   'data_vars': ['a', 'b'],
                                   'coords': [],
                                   'attrs': "{'chunked_with': '{}'}",
                                   'variables': {'a': {'type': 'Variable',
                                                       'dims': ('x',),
                                                       'shape': (3,),
                                                       'dtype': 'int8',
                                                       'attrs': "{'a': 1}",
                                                       'encoding': '{}',
                                                       'in-memory': True,
                                                       'data-types': ['ndarray'],
                                                       'values': '[1, 2, 3]'},
                                                 'b': {'type': 'Variable',
                                                       'dims': ('x', 'y'),
                                                       'shape': (3, 4),
                                                       'dtype': 'int64',
                                                       'attrs': "{'b': 'abc'}",
                                                       'encoding': '{}',
                                                       'in-memory': True,
                                                       'data-types': ['ndarray'],
                                                       'values': '[[0, 1, 2, 3], [4, 5, 6, 7], [8, '
                                                                 '9, 10, 11]]'}},
                                   'chunk-calls': [(['a', 'b'], '{}', 'dict')],
                                   'group-attrs-unchanged': True},
                'flat-only-unknown': {'type': 'Dataset',
                                      'sizes': "{'x': 3, 'y': 4}",
                                      'data_vars': ['a', 'b'],
                                      'coords': [],
                                      'attrs': "{'chunked_with': '{}'}",
                                      'variables': {'a': {'type': 'Variable',
                                                          'dims': ('x',),
                                                          'shape': (3,),
                                                          'dtype': 'int8',
                                                          'attrs': "{'a': 1}",
                                                          'encoding': '{}',
                                                          'in-memory': True,
                                                          'data-types': ['ndarray'],
                                                          'values': '[1, 2, 3]'},
                                                    'b': {'type': 'Variable',
                                                          'dims': ('x', 'y'),
                                                          'shape': (3, 4),
                                                          'dtype': 'int64',
                                                          'attrs': "{'b': 'abc'}",
                                                          'encoding': '{}',
                                                          'in-memory': True,
                                                          'data-types': ['ndarray'],
                                                          'values': '[[0, 1, 2, 3], [4, 5, 6, 7], '
                                                                    '[8, 9, 10, 11]]'}},
                                      'chunk-calls': [(['a', 'b'], '{}', 'dict')],
                                      'group-attrs-unchanged': True},
                'flat-int': {'raises': ["AttributeError: 'int' object has no attribute 'items'"],
                             'chunk-calls': [],
                             'group-attrs-unchanged': True},
                'flat-auto': {'raises': ["AttributeError: 'str' object has no attribute 'items'"],
                              'chunk-calls': [],
                              'group-attrs-unchanged': True},
                'coords-none': {'type': 'Dataset',
                                'sizes': "{'x': 3, 'y': 4}",
                                'data_vars': ['a'],
                                'coords': ['b'],
                                'attrs': "{'k': 1}",
                                'variables': {'a': {'type': 'Variable',
                                                    'dims': ('x',),
                                                    'shape': (3,),
                                                    'dtype': 'int8',
                                                    'attrs': "{'a': 1}",
                                                    'encoding': '{}',
                                                    'in-memory': True,
                                                    'data-types': ['ndarray'],
                                                    'values': '[1, 2, 3]'},
                                              'b': {'type': 'Variable',
                                                    'dims': ('x', 'y'),
                                                    'shape': (3, 4),
                                                    'dtype': 'int64',
                                                    'attrs': "{'b': 'abc'}",
                                                    'encoding': '{}',
                                                    'in-memory': True,
                                                    'data-types': ['ndarray'],
                                                    'values': '[[0, 1, 2, 3], [4, 5, 6, 7], [8, 9, '
                                                              '10, 11]]'}},
                                'chunk-calls': [],
                                'group-attrs-unchanged': True},
                'coords-empty': {'type': 'Dataset',
                                 'sizes': "{'x': 3, 'y': 4}",
                                 'data_vars': ['a'],
                                 'coords': ['b'],
                                 'attrs': "{'k': 1, 'chunked_with': '{}'}",
                                 'variables': {'a': {'type': 'Variable',
                                                     'dims': ('x',),
                                                     'shape': (3,),
                                                     'dtype': 'int8',
                                                     'attrs': "{'a': 1}",
                                                     'encoding': '{}',
                                                     'in-memory': True,
                                                     'data-types': ['ndarray'],
                                                     'values': '[1, 2, 3]'},
                                               'b': {'type': 'Variable',
                                                     'dims': ('x', 'y'),
                                                     'shape': (3, 4),
                                                     'dtype': 'int64',
                                                     'attrs': "{'b': 'abc'}",
                                                     'encoding': '{}',
                                                     'in-memory': True,
                                                     'data-types': ['ndarray'],
                                                     'values': '[[0, 1, 2, 3], [4, 5, 6, 7], [8, '
                                                               '9, 10, 11]]'}},
                                 'chunk-calls': [(['a', 'b'], '{}', 'dict')],
                                 'group-attrs-unchanged': True},
                'coords-x': {'type': 'Dataset',
                             'sizes': "{'x': 3, 'y': 4}",
                             'data_vars': ['a'],
                             'coords': ['b'],
                             'attrs': '{\'k\': 1, \'chunked_with\': "{\'x\': 1}"}',
                             'variables': {'a': {'type': 'Variable',
                                                 'dims': ('x',),
                                                 'shape': (3,),
                                                 'dtype': 'int8',
                                                 'attrs': "{'a': 1}",
                                                 'encoding': '{}',
                                                 'in-memory': True,
                                                 'data-types': ['ndarray'],
                                                 'values': '[1, 2, 3]'},
                                           'b': {'type': 'Variable',
                                                 'dims': ('x', 'y'),
                                                 'shape': (3, 4),
                                                 'dtype': 'int64',
                                                 'attrs': "{'b': 'abc'}",
                                                 'encoding': '{}',
                                                 'in-memory': True,
                                                 'data-types': ['ndarray'],
                                                 'values': '[[0, 1, 2, 3], [4, 5, 6, 7], [8, 9, '
                                                           '10, 11]]'}},
                             'chunk-calls': [(['a', 'b'], "{'x': 1}", 'dict')],
                             'group-attrs-unchanged': True},
                'coords-x-y-unknown': {'type': 'Dataset',
                                       'sizes': "{'x': 3, 'y': 4}",
                                       'data_vars': ['a'],
                                       'coords': ['b'],
                                       'attrs': '{\'k\': 1, \'chunked_with\': "{\'x\': 1, \'y\': '
                                                '2}"}',
                                       'variables': {'a': {'type': 'Variable',
                                                           'dims': ('x',),
                                                           'shape': (3,),
                                                           'dtype': 'int8',
                                                           'attrs': "{'a': 1}",
                                                           'encoding': '{}',
                                                           'in-memory': True,
                                                           'data-types': ['ndarray'],
                                                           'values': '[1, 2, 3]'},
                                                     'b': {'type': 'Variable',
                                                           'dims': ('x', 'y'),
                                                           'shape': (3, 4),
                                                           'dtype': 'int64',
                                                           'attrs': "{'b': 'abc'}",
                                                           'encoding': '{}',
                                                           'in-memory': True,
                                                           'data-types': ['ndarray'],
                                                           'values': '[[0, 1, 2, 3], [4, 5, 6, 7], '
                                                                     '[8, 9, 10, 11]]'}},
                                       'chunk-calls': [(['a', 'b'], "{'x': 1, 'y': 2}", 'dict')],
                                       'group-attrs-unchanged': True},
                'coords-rows-cols': {'type': 'Dataset',
                                     'sizes': "{'x': 3, 'y': 4}",
                                     'data_vars': ['a'],
                                     'coords': ['b'],
                                     'attrs': "{'k': 1, 'chunked_with': '{}'}",
                                     'variables': {'a': {'type': 'Variable',
                                                         'dims': ('x',),
                                                         'shape': (3,),
                                                         'dtype': 'int8',
                                                         'attrs': "{'a': 1}",
                                                         'encoding': '{}',
                                                         'in-memory': True,
                                                         'data-types': ['ndarray'],
                                                         'values': '[1, 2, 3]'},
                                                   'b': {'type': 'Variable',
                                                         'dims': ('x', 'y'),
                                                         'shape': (3, 4),
                                                         'dtype': 'int64',
                                                         'attrs': "{'b': 'abc'}",
                                                         'encoding': '{}',
                                                         'in-memory': True,
                                                         'data-types': ['ndarray'],
                                                         'values': '[[0, 1, 2, 3], [4, 5, 6, 7], '
                                                                   '[8, 9, 10, 11]]'}},
                                     'chunk-calls': [(['a', 'b'], '{}', 'dict')],
                                     'group-attrs-unchanged': True},
                'coords-only-unknown': {'type': 'Dataset',
                                        'sizes': "{'x': 3, 'y': 4}",
                                        'data_vars': ['a'],
                                        'coords': ['b'],
                                        'attrs': "{'k': 1, 'chunked_with': '{}'}",
                                        'variables': {'a': {'type': 'Variable',
                                                            'dims': ('x',),
                                                            'shape': (3,),
                                                            'dtype': 'int8',
                                                            'attrs': "{'a': 1}",
                                                            'encoding': '{}',
                                                            'in-memory': True,
                                                            'data-types': ['ndarray'],
                                                            'values': '[1, 2, 3]'},
                                                      'b': {'type': 'Variable',
                                                            'dims': ('x', 'y'),
                                                            'shape': (3, 4),
                                                            'dtype': 'int64',
                                                            'attrs': "{'b': 'abc'}",
                                                            'encoding': '{}',
                                                            'in-memory': True,
                                                            'data-types': ['ndarray'],
                                                            'values': '[[0, 1, 2, 3], [4, 5, 6, '
                                                                      '7], [8, 9, 10, 11]]'}},
                                        'chunk-calls': [(['a', 'b'], '{}', 'dict')],
                                        'group-attrs-unchanged': True},
                'coords-int': {'raises': ["AttributeError: 'int' object has no attribute 'items'"],
                               'chunk-calls': [],
                               'group-attrs-unchanged': True},
                'coords-auto': {'raises': ["AttributeError: 'str' object has no attribute 'items'"],
                                'chunk-calls': [],
                                'group-attrs-unchanged': True},
                'coords-all-none': {'type': 'Dataset',
                                    'sizes': "{'x': 3, 'y': 4}",
                                    'data_vars': [],
                                    'coords': ['a', 'b'],
                                    'attrs': '{}',
                                    'variables': {'a': {'type': 'Variable',
                                                        'dims': ('x',),
                                                        'shape': (3,),
                                                        'dtype': 'int8',
                                                        'attrs': "{'a': 1}",
                                                        'encoding': '{}',
                                                        'in-memory': True,
                                                        'data-types': ['ndarray'],
                                                        'values': '[1, 2, 3]'},
                                                  'b': {'type': 'Variable',
                                                        'dims': ('x', 'y'),
                                                        'shape': (3, 4),
                                                        'dtype': 'int64',
                                                        'attrs': "{'b': 'abc'}",
                                                        'encoding': '{}',
                                                        'in-memory': True,
                                                        'data-types': ['ndarray'],
                                                        'values': '[[0, 1, 2, 3], [4, 5, 6, 7], '
                                                                  '[8, 9, 10, 11]]'}},
                                    'chunk-calls': [],
                                    'group-attrs-unchanged': True},
                'coords-all-x': {'type': 'Dataset',
                                 'sizes': "{'x': 3, 'y': 4}",
                                 'data_vars': [],
                                 'coords': ['a', 'b'],
                                 'attrs': '{\'chunked_with\': "{\'x\': 1}"}',
                                 'variables': {'a': {'type': 'Variable',
                                                     'dims': ('x',),
                                                     'shape': (3,),
                                                     'dtype': 'int8',
                                                     'attrs': "{'a': 1}",
                                                     'encoding': '{}',
                                                     'in-memory': True,
                                                     'data-types': ['ndarray'],
                                                     'values': '[1, 2, 3]'},
                                               'b': {'type': 'Variable',
                                                     'dims': ('x', 'y'),
                                                     'shape': (3, 4),
                                                     'dtype': 'int64',
                                                     'attrs': "{'b': 'abc'}",
                                                     'encoding': '{}',
                                                     'in-memory': True,
                                                     'data-types': ['ndarray'],
                                                     'values': '[[0, 1, 2, 3], [4, 5, 6, 7], [8, '
                                                               '9, 10, 11]]'}},
                                 'chunk-calls': [(['a', 'b'], "{'x': 1}", 'dict')],
                                 'group-attrs-unchanged': True},
                'coords-empty-none': {'type': 'Dataset',
                                      'sizes': "{'x': 3, 'y': 4}",
                                      'data_vars': ['a', 'b'],
                                      'coords': [],
                                      'attrs': '{}',
                                      'variables': {'a': {'type': 'Variable',
                                                          'dims': ('x',),
                                                          'shape': (3,),
                                                          'dtype': 'int8',
                                                          'attrs': "{'a': 1}",
                                                          'encoding': '{}',
                                                          'in-memory': True,
                                                          'data-types': ['ndarray'],
                                                          'values': '[1, 2, 3]'},
                                                    'b': {'type': 'Variable',
                                                          'dims': ('x', 'y'),
                                                          'shape': (3, 4),
                                                          'dtype': 'int64',
                                                          'attrs': "{'b': 'abc'}",
                                                          'encoding': '{}',
                                                          'in-memory': True,
                                                          'data-types': ['ndarray'],
                                                          'values': '[[0, 1, 2, 3], [4, 5, 6, 7], '
                                                                    '[8, 9, 10, 11]]'}},
                                      'chunk-calls': [],
                                      'group-attrs-unchanged': True},
                'coords-empty-x': {'type': 'Dataset',
                                   'sizes': "{'x': 3, 'y': 4}",
                                   'data_vars': ['a', 'b'],
                                   'coords': [],
                                   'attrs': '{\'chunked_with\': "{\'x\': 1}"}',
                                   'variables': {'a': {'type': 'Variable',
                                                       'dims': ('x',),
                                                       'shape': (3,),
                                                       'dtype': 'int8',
                                                       'attrs': "{'a': 1}",
                                                       'encoding': '{}',
                                                       'in-memory': True,
                                                       'data-types': ['ndarray'],
                                                       'values': '[1, 2, 3]'},
                                                 'b': {'type': 'Variable',
                                                       'dims': ('x', 'y'),
                                                       'shape': (3, 4),
                                                       'dtype': 'int64',
                                                       'attrs': "{'b': 'abc'}",
                                                       'encoding': '{}',
                                                       'in-memory': True,
                                                       'data-types': ['ndarray'],
                                                       'values': '[[0, 1, 2, 3], [4, 5, 6, 7], [8, '
                                                                 '9, 10, 11]]'}},
                                   'chunk-calls': [(['a', 'b'], "{'x': 1}", 'dict')],
                                   'group-attrs-unchanged': True},
                'coords-str-none': {'type': 'Dataset',
                                    'sizes': "{'x': 3, 'y': 4}",
                                    'data_vars': ['b'],
                                    'coords': ['a'],
                                    'attrs': '{}',
                                    'variables': {'a': {'type': 'Variable',
                                                        'dims': ('x',),
                                                        'shape': (3,),
                                                        'dtype': 'int8',
                                                        'attrs': "{'a': 1}",
                                                        'encoding': '{}',
                                                        'in-memory': True,
                                                        'data-types': ['ndarray'],
                                                        'values': '[1, 2, 3]'},
                                                  'b': {'type': 'Variable',
                                                        'dims': ('x', 'y'),
                                                        'shape': (3, 4),
                                                        'dtype': 'int64',
                                                        'attrs': "{'b': 'abc'}",
                                                        'encoding': '{}',
                                                        'in-memory': True,
                                                        'data-types': ['ndarray'],
                                                        'values': '[[0, 1, 2, 3], [4, 5, 6, 7], '
                                                                  '[8, 9, 10, 11]]'}},
                                    'chunk-calls': [],
                                    'group-attrs-unchanged': True},
                'coords-str-x': {'type': 'Dataset',
                                 'sizes': "{'x': 3, 'y': 4}",
                                 'data_vars': ['b'],
                                 'coords': ['a'],
                                 'attrs': '{\'chunked_with\': "{\'x\': 1}"}',
                                 'variables': {'a': {'type': 'Variable',
                                                     'dims': ('x',),
                                                     'shape': (3,),
                                                     'dtype': 'int8',
                                                     'attrs': "{'a': 1}",
                                                     'encoding': '{}',
                                                     'in-memory': True,
                                                     'data-types': ['ndarray'],
                                                     'values': '[1, 2, 3]'},
                                               'b': {'type': 'Variable',
                                                     'dims': ('x', 'y'),
                                                     'shape': (3, 4),
                                                     'dtype': 'int64',
                                                     'attrs': "{'b': 'abc'}",
                                                     'encoding': '{}',
                                                     'in-memory': True,
                                                     'data-types': ['ndarray'],
                                                     'values': '[[0, 1, 2, 3], [4, 5, 6, 7], [8, '
                                                               '9, 10, 11]]'}},
                                 'chunk-calls': [(['a', 'b'], "{'x': 1}", 'dict')],
                                 'group-attrs-unchanged': True},
                'coords-missing-none': {'raises': ['ValueError: These variables cannot be found in '
                                                   "this dataset: ['zz']"],
                                        'chunk-calls': [],
                                        'group-attrs-unchanged': True},
                'coords-missing-x': {'raises': ['ValueError: These variables cannot be found in '
                                                "this dataset: ['zz']"],
                                     'chunk-calls': [],
                                     'group-attrs-unchanged': True},
                'image-none': {'type': 'Dataset',
                               'sizes': "{'rows': 4, 'cols': 6}",
                               'data_vars': ['data'],
                               'coords': ['rows', 't'],
                               'attrs': '{}',
                               'variables': {'data': {'type': 'Variable',
                                                      'dims': ('rows', 'cols'),
                                                      'shape': (4, 6),
                                                      'dtype': 'uint16',
                                                      'attrs': "{'units': 'dn'}",
                                                      'encoding': "{'preferred_chunksizes': "
                                                                  "{'rows': 2, 'cols': 6}}",
                                                      'in-memory': False,
                                                      'data-types': ['LazilyIndexedArray',
                                                                     'LazilyIndexedWrapper',
                                                                     'lock=SerializableLock',
                                                                     'Array'],
                                                      'values': '[[0, 11, 22, 33, 44, 55], [66, '
                                                                '77, 88, 99, 110, 121], [132, 143, '
                                                                '154, 165, 176, 187], [198, 209, '
                                                                '220, 231, 242, 253]]'},
                                             'rows': {'type': 'IndexVariable',
                                                      'dims': ('rows',),
                                                      'shape': (4,),
                                                      'dtype': 'float64',
                                                      'attrs': '{}',
                                                      'encoding': '{}',
                                                      'in-memory': True,
                                                      'data-types': ['PandasIndexingAdapter',
                                                                     'Index',
                                                                     'NumpyExtensionArray'],
                                                      'values': '[0.0, 2.5, 5.0, 7.5]'},
                                             't': {'type': 'Variable',
                                                   'dims': ('rows',),
                                                   'shape': (4,),
                                                   'dtype': 'int64',
                                                   'attrs': "{'long_name': 'time'}",
                                                   'encoding': '{}',
                                                   'in-memory': True,
                                                   'data-types': ['ndarray'],
                                                   'values': '[0, 1, 2, 3]'}},
                               'chunk-calls': [],
                               'group-attrs-unchanged': True},
                'image-empty': {'type': 'Dataset',
                                'sizes': "{'rows': 4, 'cols': 6}",
                                'data_vars': ['data'],
                                'coords': ['rows', 't'],
                                'attrs': "{'chunked_with': '{}'}",
                                'variables': {'data': {'type': 'Variable',
                                                       'dims': ('rows', 'cols'),
                                                       'shape': (4, 6),
                                                       'dtype': 'uint16',
                                                       'attrs': "{'units': 'dn'}",
                                                       'encoding': "{'preferred_chunksizes': "
                                                                   "{'rows': 2, 'cols': 6}}",
                                                       'in-memory': False,
                                                       'data-types': ['LazilyIndexedArray',
                                                                      'LazilyIndexedWrapper',
                                                                      'lock=SerializableLock',
                                                                      'Array'],
                                                       'values': '[[0, 11, 22, 33, 44, 55], [66, '
                                                                 '77, 88, 99, 110, 121], [132, '
                                                                 '143, 154, 165, 176, 187], [198, '
                                                                 '209, 220, 231, 242, 253]]'},
                                              'rows': {'type': 'IndexVariable',
                                                       'dims': ('rows',),
                                                       'shape': (4,),
                                                       'dtype': 'float64',
                                                       'attrs': '{}',
                                                       'encoding': '{}',
                                                       'in-memory': True,
                                                       'data-types': ['PandasIndexingAdapter',
                                                                      'Index',
                                                                      'NumpyExtensionArray'],
                                                       'values': '[0.0, 2.5, 5.0, 7.5]'},
                                              't': {'type': 'Variable',
                                                    'dims': ('rows',),
                                                    'shape': (4,),
                                                    'dtype': 'int64',
                                                    'attrs': "{'long_name': 'time'}",
                                                    'encoding': '{}',
                                                    'in-memory': True,
                                                    'data-types': ['ndarray'],
                                                    'values': '[0, 1, 2, 3]'}},
                                'chunk-calls': [(['data', 'rows', 't'], '{}', 'dict')],
                                'group-attrs-unchanged': True},
                'image-x': {'type': 'Dataset',
                            'sizes': "{'rows': 4, 'cols': 6}",
                            'data_vars': ['data'],
                            'coords': ['rows', 't'],
                            'attrs': "{'chunked_with': '{}'}",
                            'variables': {'data': {'type': 'Variable',
                                                   'dims': ('rows', 'cols'),
                                                   'shape': (4, 6),
                                                   'dtype': 'uint16',
                                                   'attrs': "{'units': 'dn'}",
                                                   'encoding': "{'preferred_chunksizes': {'rows': "
                                                               "2, 'cols': 6}}",
                                                   'in-memory': False,
                                                   'data-types': ['LazilyIndexedArray',
                                                                  'LazilyIndexedWrapper',
                                                                  'lock=SerializableLock',
                                                                  'Array'],
                                                   'values': '[[0, 11, 22, 33, 44, 55], [66, 77, '
                                                             '88, 99, 110, 121], [132, 143, 154, '
                                                             '165, 176, 187], [198, 209, 220, 231, '
                                                             '242, 253]]'},
                                          'rows': {'type': 'IndexVariable',
                                                   'dims': ('rows',),
                                                   'shape': (4,),
                                                   'dtype': 'float64',
                                                   'attrs': '{}',
                                                   'encoding': '{}',
                                                   'in-memory': True,
                                                   'data-types': ['PandasIndexingAdapter',
                                                                  'Index',
                                                                  'NumpyExtensionArray'],
                                                   'values': '[0.0, 2.5, 5.0, 7.5]'},
                                          't': {'type': 'Variable',
                                                'dims': ('rows',),
                                                'shape': (4,),
                                                'dtype': 'int64',
                                                'attrs': "{'long_name': 'time'}",
                                                'encoding': '{}',
                                                'in-memory': True,
                                                'data-types': ['ndarray'],
                                                'values': '[0, 1, 2, 3]'}},
                            'chunk-calls': [(['data', 'rows', 't'], '{}', 'dict')],
                            'group-attrs-unchanged': True},
                'image-x-y-unknown': {'type': 'Dataset',
                                      'sizes': "{'rows': 4, 'cols': 6}",
                                      'data_vars': ['data'],
                                      'coords': ['rows', 't'],
                                      'attrs': "{'chunked_with': '{}'}",
                                      'variables': {'data': {'type': 'Variable',
                                                             'dims': ('rows', 'cols'),
                                                             'shape': (4, 6),
                                                             'dtype': 'uint16',
                                                             'attrs': "{'units': 'dn'}",
                                                             'encoding': "{'preferred_chunksizes': "
                                                                         "{'rows': 2, 'cols': 6}}",
                                                             'in-memory': False,
                                                             'data-types': ['LazilyIndexedArray',
                                                                            'LazilyIndexedWrapper',
                                                                            'lock=SerializableLock',
                                                                            'Array'],
                                                             'values': '[[0, 11, 22, 33, 44, 55], '
                                                                       '[66, 77, 88, 99, 110, '
                                                                       '121], [132, 143, 154, 165, '
                                                                       '176, 187], [198, 209, 220, '
                                                                       '231, 242, 253]]'},
                                                    'rows': {'type': 'IndexVariable',
                                                             'dims': ('rows',),
                                                             'shape': (4,),
                                                             'dtype': 'float64',
                                                             'attrs': '{}',
                                                             'encoding': '{}',
                                                             'in-memory': True,
                                                             'data-types': ['PandasIndexingAdapter',
                                                                            'Index',
                                                                            'NumpyExtensionArray'],
                                                             'values': '[0.0, 2.5, 5.0, 7.5]'},
                                                    't': {'type': 'Variable',
                                                          'dims': ('rows',),
                                                          'shape': (4,),
                                                          'dtype': 'int64',
                                                          'attrs': "{'long_name': 'time'}",
                                                          'encoding': '{}',
                                                          'in-memory': True,
                                                          'data-types': ['ndarray'],
                                                          'values': '[0, 1, 2, 3]'}},
                                      'chunk-calls': [(['data', 'rows', 't'], '{}', 'dict')],
                                      'group-attrs-unchanged': True},
                'image-rows-cols': {'type': 'Dataset',
                                    'sizes': "{'rows': 4, 'cols': 6}",
                                    'data_vars': ['data'],
                                    'coords': ['rows', 't'],
                                    'attrs': '{\'chunked_with\': "{\'rows\': 2, \'cols\': -1}"}',
                                    'variables': {'data': {'type': 'Variable',
                                                           'dims': ('rows', 'cols'),
                                                           'shape': (4, 6),
                                                           'dtype': 'uint16',
                                                           'attrs': "{'units': 'dn'}",
                                                           'encoding': "{'preferred_chunksizes': "
                                                                       "{'rows': 2, 'cols': 6}}",
                                                           'in-memory': False,
                                                           'data-types': ['LazilyIndexedArray',
                                                                          'LazilyIndexedWrapper',
                                                                          'lock=SerializableLock',
                                                                          'Array'],
                                                           'values': '[[0, 11, 22, 33, 44, 55], '
                                                                     '[66, 77, 88, 99, 110, 121], '
                                                                     '[132, 143, 154, 165, 176, '
                                                                     '187], [198, 209, 220, 231, '
                                                                     '242, 253]]'},
                                                  'rows': {'type': 'IndexVariable',
                                                           'dims': ('rows',),
                                                           'shape': (4,),
                                                           'dtype': 'float64',
                                                           'attrs': '{}',
                                                           'encoding': '{}',
                                                           'in-memory': True,
                                                           'data-types': ['PandasIndexingAdapter',
                                                                          'Index',
                                                                          'NumpyExtensionArray'],
                                                           'values': '[0.0, 2.5, 5.0, 7.5]'},
                                                  't': {'type': 'Variable',
                                                        'dims': ('rows',),
                                                        'shape': (4,),
                                                        'dtype': 'int64',
                                                        'attrs': "{'long_name': 'time'}",
                                                        'encoding': '{}',
                                                        'in-memory': True,
                                                        'data-types': ['ndarray'],
                                                        'values': '[0, 1, 2, 3]'}},
                                    'chunk-calls': [(['data', 'rows', 't'],
                                                     "{'rows': 2, 'cols': -1}",
                                                     'dict')],
                                    'group-attrs-unchanged': True},
                'image-only-unknown': {'type': 'Dataset',
                                       'sizes': "{'rows': 4, 'cols': 6}",
                                       'data_vars': ['data'],
                                       'coords': ['rows', 't'],
                                       'attrs': "{'chunked_with': '{}'}",
                                       'variables': {'data': {'type': 'Variable',
                                                              'dims': ('rows', 'cols'),
                                                              'shape': (4, 6),
                                                              'dtype': 'uint16',
                                                              'attrs': "{'units': 'dn'}",
                                                              'encoding': "{'preferred_chunksizes': "
                                                                          "{'rows': 2, 'cols': 6}}",
                                                              'in-memory': False,
                                                              'data-types': ['LazilyIndexedArray',
                                                                             'LazilyIndexedWrapper',
                                                                             'lock=SerializableLock',
                                                                             'Array'],
                                                              'values': '[[0, 11, 22, 33, 44, 55], '
                                                                        '[66, 77, 88, 99, 110, '
                                                                        '121], [132, 143, 154, '
                                                                        '165, 176, 187], [198, '
                                                                        '209, 220, 231, 242, '
                                                                        '253]]'},
                                                     'rows': {'type': 'IndexVariable',
                                                              'dims': ('rows',),
                                                              'shape': (4,),
                                                              'dtype': 'float64',
                                                              'attrs': '{}',
                                                              'encoding': '{}',
                                                              'in-memory': True,
                                                              'data-types': ['PandasIndexingAdapter',
                                                                             'Index',
                                                                             'NumpyExtensionArray'],
                                                              'values': '[0.0, 2.5, 5.0, 7.5]'},
                                                     't': {'type': 'Variable',
                                                           'dims': ('rows',),
                                                           'shape': (4,),
                                                           'dtype': 'int64',
                                                           'attrs': "{'long_name': 'time'}",
                                                           'encoding': '{}',
                                                           'in-memory': True,
                                                           'data-types': ['ndarray'],
                                                           'values': '[0, 1, 2, 3]'}},
                                       'chunk-calls': [(['data', 'rows', 't'], '{}', 'dict')],
                                       'group-attrs-unchanged': True},
                'image-int': {'raises': ["AttributeError: 'int' object has no attribute 'items'"],
                              'chunk-calls': [],
                              'group-attrs-unchanged': True},
                'image-auto': {'raises': ["AttributeError: 'str' object has no attribute 'items'"],
                               'chunk-calls': [],
                               'group-attrs-unchanged': True},
                'conflicting-sizes-none': {'raises': ['ValueError: conflicting sizes for dimension '
                                                      "'x': length 4 on 'b' and length 3 on {'x': "
                                                      "'a'}"],
                                           'chunk-calls': [],
                                           'group-attrs-unchanged': True},
                'conflicting-sizes-x': {'raises': ['ValueError: conflicting sizes for dimension '
                                                   "'x': length 4 on 'b' and length 3 on {'x': "
                                                   "'a'}"],
                                        'chunk-calls': [],
                                        'group-attrs-unchanged': True},
                'nested-none': {'type': 'Dataset',
                                'sizes': "{'p': 2}",
                                'data_vars': ['v'],
                                'coords': [],
                                'attrs': "{'root': True}",
                                'variables': {'v': {'type': 'Variable',
                                                    'dims': ('p',),
                                                    'shape': (2,),
                                                    'dtype': 'int64',
                                                    'attrs': '{}',
                                                    'encoding': '{}',
                                                    'in-memory': True,
                                                    'data-types': ['ndarray'],
                                                    'values': '[0, 1]'}},
                                'chunk-calls': [],
                                'group-attrs-unchanged': True},
                'nested-x': {'type': 'Dataset',
                             'sizes': "{'p': 2}",
                             'data_vars': ['v'],
                             'coords': [],
                             'attrs': "{'root': True, 'chunked_with': '{}'}",
                             'variables': {'v': {'type': 'Variable',
                                                 'dims': ('p',),
                                                 'shape': (2,),
                                                 'dtype': 'int64',
                                                 'attrs': '{}',
                                                 'encoding': '{}',
                                                 'in-memory': True,
                                                 'data-types': ['ndarray'],
                                                 'values': '[0, 1]'}},
                             'chunk-calls': [(['v'], '{}', 'dict')],
                             'group-attrs-unchanged': True},
                'nested-misaligned-none': {'type': 'Dataset',
                                           'sizes': "{'x': 2}",
                                           'data_vars': ['v'],
                                           'coords': [],
                                           'attrs': '{}',
                                           'variables': {'v': {'type': 'Variable',
                                                               'dims': ('x',),
                                                               'shape': (2,),
                                                               'dtype': 'int64',
                                                               'attrs': '{}',
                                                               'encoding': '{}',
                                                               'in-memory': True,
                                                               'data-types': ['ndarray'],
                                                               'values': '[0, 1]'}},
                                           'chunk-calls': [],
                                           'group-attrs-unchanged': True},
                'nested-misaligned-x': {'type': 'Dataset',
                                        'sizes': "{'x': 2}",
                                        'data_vars': ['v'],
                                        'coords': [],
                                        'attrs': '{\'chunked_with\': "{\'x\': 1}"}',
                                        'variables': {'v': {'type': 'Variable',
                                                            'dims': ('x',),
                                                            'shape': (2,),
                                                            'dtype': 'int64',
                                                            'attrs': '{}',
                                                            'encoding': '{}',
                                                            'in-memory': True,
                                                            'data-types': ['ndarray'],
                                                            'values': '[0, 1]'}},
                                        'chunk-calls': [(['v'], "{'x': 1}", 'dict')],
                                        'group-attrs-unchanged': True},
                'non-root-none': {'type': 'Dataset',
                                  'sizes': "{'x': 3, 'y': 4}",
                                  'data_vars': ['a', 'b'],
                                  'coords': [],
                                  'attrs': "{'n': 1}",
                                  'variables': {'a': {'type': 'Variable',
                                                      'dims': ('x',),
                                                      'shape': (3,),
                                                      'dtype': 'int8',
                                                      'attrs': "{'a': 1}",
                                                      'encoding': '{}',
                                                      'in-memory': True,
                                                      'data-types': ['ndarray'],
                                                      'values': '[1, 2, 3]'},
                                                'b': {'type': 'Variable',
                                                      'dims': ('x', 'y'),
                                                      'shape': (3, 4),
                                                      'dtype': 'int64',
                                                      'attrs': "{'b': 'abc'}",
                                                      'encoding': '{}',
                                                      'in-memory': True,
                                                      'data-types': ['ndarray'],
                                                      'values': '[[0, 1, 2, 3], [4, 5, 6, 7], [8, '
                                                                '9, 10, 11]]'}},
                                  'chunk-calls': [],
                                  'group-attrs-unchanged': True},
                'non-root-x': {'type': 'Dataset',
                               'sizes': "{'x': 3, 'y': 4}",
                               'data_vars': ['a', 'b'],
                               'coords': [],
                               'attrs': '{\'n\': 1, \'chunked_with\': "{\'x\': 1}"}',
                               'variables': {'a': {'type': 'Variable',
                                                   'dims': ('x',),
                                                   'shape': (3,),
                                                   'dtype': 'int8',
                                                   'attrs': "{'a': 1}",
                                                   'encoding': '{}',
                                                   'in-memory': True,
                                                   'data-types': ['ndarray'],
                                                   'values': '[1, 2, 3]'},
                                             'b': {'type': 'Variable',
                                                   'dims': ('x', 'y'),
                                                   'shape': (3, 4),
                                                   'dtype': 'int64',
                                                   'attrs': "{'b': 'abc'}",
                                                   'encoding': '{}',
                                                   'in-memory': True,
                                                   'data-types': ['ndarray'],
                                                   'values': '[[0, 1, 2, 3], [4, 5, 6, 7], [8, 9, '
                                                             '10, 11]]'}},
                               'chunk-calls': [(['a', 'b'], "{'x': 1}", 'dict')],
                               'group-attrs-unchanged': True},
                'non-root-nested-none': {'type': 'Dataset',
                                         'sizes': '{}',
                                         'data_vars': [],
                                         'coords': [],
                                         'attrs': '{}',
                                         'variables': {},
                                         'chunk-calls': [],
                                         'group-attrs-unchanged': True},
                'non-root-nested-x': {'type': 'Dataset',
                                      'sizes': '{}',
                                      'data_vars': [],
                                      'coords': [],
                                      'attrs': "{'chunked_with': '{}'}",
                                      'variables': {},
                                      'chunk-calls': [([], '{}', 'dict')],
                                      'group-attrs-unchanged': True},
                'positional-chunks': {'type': 'Dataset',
                                      'sizes': "{'x': 3, 'y': 4}",
                                      'data_vars': ['a', 'b'],
                                      'coords': [],
                                      'attrs': '{}',
                                      'variables': {'a': {'type': 'Variable',
                                                          'dims': ('x',),
                                                          'shape': (3,),
                                                          'dtype': 'int8',
                                                          'attrs': "{'a': 1}",
                                                          'encoding': '{}',
                                                          'in-memory': True,
                                                          'data-types': ['ndarray'],
                                                          'values': '[1, 2, 3]'},
                                                    'b': {'type': 'Variable',
                                                          'dims': ('x', 'y'),
                                                          'shape': (3, 4),
                                                          'dtype': 'int64',
                                                          'attrs': "{'b': 'abc'}",
                                                          'encoding': '{}',
                                                          'in-memory': True,
                                                          'data-types': ['ndarray'],
                                                          'values': '[[0, 1, 2, 3], [4, 5, 6, 7], '
                                                                    '[8, 9, 10, 11]]'}}},
                'default-chunks': {'type': 'Dataset',
                                   'sizes': "{'x': 3, 'y': 4}",
                                   'data_vars': ['a'],
                                   'coords': ['b'],
                                   'attrs': "{'k': 1}",
                                   'variables': {'a': {'type': 'Variable',
                                                       'dims': ('x',),
                                                       'shape': (3,),
                                                       'dtype': 'int8',
                                                       'attrs': "{'a': 1}",
                                                       'encoding': '{}',
                                                       'in-memory': True,
                                                       'data-types': ['ndarray'],
                                                       'values': '[1, 2, 3]'},
                                                 'b': {'type': 'Variable',
                                                       'dims': ('x', 'y'),
                                                       'shape': (3, 4),
                                                       'dtype': 'int64',
                                                       'attrs': "{'b': 'abc'}",
                                                       'encoding': '{}',
                                                       'in-memory': True,
                                                       'data-types': ['ndarray'],
                                                       'values': '[[0, 1, 2, 3], [4, 5, 6, 7], [8, '
                                                                 '9, 10, 11]]'}}},
                'real-chunk': {'raises': ["ImportError: chunk manager 'dask' is not available. "
                                          "Please make sure 'dask' is installed and importable."]},
                'real-chunk-empty': {'raises': ["ImportError: chunk manager 'dask' is not "
                                                "available. Please make sure 'dask' is installed "
                                                'and importable.']}},
 'to_datatree': {'empty-none': {'type': 'DataTree',
                                'paths': ['/'],
                                'datasets': {'/': {'type': 'Dataset',
                                                   'sizes': '{}',
                                                   'data_vars': [],
                                                   'coords': [],
                                                   'attrs': '{}',
                                                   'variables': {}}},
                                'to_dataset-calls': [('/', [], 'None'), ('/', [], 'None')],
                                'chunk-calls': []},
                 'empty-x-y-unknown': {'type': 'DataTree',
                                       'paths': ['/'],
                                       'datasets': {'/': {'type': 'Dataset',
                                                          'sizes': '{}',
                                                          'data_vars': [],
                                                          'coords': [],
                                                          'attrs': "{'chunked_with': '{}'}",
                                                          'variables': {}}},
                                       'to_dataset-calls': [('/',
                                                             [],
                                                             "{'x': 1, 'y': 2, 'unknown': 5}"),
                                                            ('/',
                                                             [],
                                                             "{'x': 1, 'y': 2, 'unknown': 5}")],
                                       'chunk-calls': [([], '{}', 'dict'), ([], '{}', 'dict')]},
                 'attrs-only-none': {'type': 'DataTree',
                                     'paths': ['/'],
                                     'datasets': {'/': {'type': 'Dataset',
                                                        'sizes': '{}',
                                                        'data_vars': [],
                                                        'coords': [],
                                                        'attrs': "{'a': 1, 'b': [2], 'c': '3'}",
                                                        'variables': {}}},
                                     'to_dataset-calls': [('/', [], 'None'), ('/', [], 'None')],
                                     'chunk-calls': []},
                 'attrs-only-x-y-unknown': {'type': 'DataTree',
                                            'paths': ['/'],
                                            'datasets': {'/': {'type': 'Dataset',
                                                               'sizes': '{}',
                                                               'data_vars': [],
                                                               'coords': [],
                                                               'attrs': "{'a': 1, 'b': [2], 'c': "
                                                                        "'3', 'chunked_with': "
                                                                        "'{}'}",
                                                               'variables': {}}},
                                            'to_dataset-calls': [('/',
                                                                  [],
                                                                  "{'x': 1, 'y': 2, 'unknown': 5}"),
                                                                 ('/',
                                                                  [],
                                                                  "{'x': 1, 'y': 2, 'unknown': "
                                                                  '5}')],
                                            'chunk-calls': [([], '{}', 'dict'),
                                                            ([], '{}', 'dict')]},
                 'flat-none': {'type': 'DataTree',
                               'paths': ['/'],
                               'datasets': {'/': {'type': 'Dataset',
                                                  'sizes': "{'x': 3, 'y': 4}",
                                                  'data_vars': ['a', 'b'],
                                                  'coords': [],
                                                  'attrs': '{}',
                                                  'variables': {'a': {'type': 'Variable',
                                                                      'dims': ('x',),
                                                                      'shape': (3,),
                                                                      'dtype': 'int8',
                                                                      'attrs': "{'a': 1}",
                                                                      'encoding': '{}',
                                                                      'in-memory': True,
                                                                      'data-types': ['ndarray'],
                                                                      'values': '[1, 2, 3]'},
                                                                'b': {'type': 'Variable',
                                                                      'dims': ('x', 'y'),
                                                                      'shape': (3, 4),
                                                                      'dtype': 'int64',
                                                                      'attrs': "{'b': 'abc'}",
                                                                      'encoding': '{}',
                                                                      'in-memory': True,
                                                                      'data-types': ['ndarray'],
                                                                      'values': '[[0, 1, 2, 3], '
                                                                                '[4, 5, 6, 7], [8, '
                                                                                '9, 10, 11]]'}}}},
                               'to_dataset-calls': [('/', ['a', 'b'], 'None'),
                                                    ('/', ['a', 'b'], 'None')],
                               'chunk-calls': []},
                 'flat-x-y-unknown': {'type': 'DataTree',
                                      'paths': ['/'],
                                      'datasets': {'/': {'type': 'Dataset',
                                                         'sizes': "{'x': 3, 'y': 4}",
                                                         'data_vars': ['a', 'b'],
                                                         'coords': [],
                                                         'attrs': '{\'chunked_with\': "{\'x\': 1, '
                                                                  '\'y\': 2}"}',
                                                         'variables': {'a': {'type': 'Variable',
                                                                             'dims': ('x',),
                                                                             'shape': (3,),
                                                                             'dtype': 'int8',
                                                                             'attrs': "{'a': 1}",
                                                                             'encoding': '{}',
                                                                             'in-memory': True,
                                                                             'data-types': ['ndarray'],
                                                                             'values': '[1, 2, 3]'},
                                                                       'b': {'type': 'Variable',
                                                                             'dims': ('x', 'y'),
                                                                             'shape': (3, 4),
                                                                             'dtype': 'int64',
                                                                             'attrs': "{'b': "
                                                                                      "'abc'}",
                                                                             'encoding': '{}',
                                                                             'in-memory': True,
                                                                             'data-types': ['ndarray'],
                                                                             'values': '[[0, 1, 2, '
                                                                                       '3], [4, 5, '
                                                                                       '6, 7], [8, '
                                                                                       '9, 10, '
                                                                                       '11]]'}}}},
                                      'to_dataset-calls': [('/',
                                                            ['a', 'b'],
                                                            "{'x': 1, 'y': 2, 'unknown': 5}"),
                                                           ('/',
                                                            ['a', 'b'],
                                                            "{'x': 1, 'y': 2, 'unknown': 5}")],
                                      'chunk-calls': [(['a', 'b'], "{'x': 1, 'y': 2}", 'dict'),
                                                      (['a', 'b'], "{'x': 1, 'y': 2}", 'dict')]},
                 'flat-int': {'raises': ["AttributeError: 'int' object has no attribute 'items'"],
                              'to_dataset-calls': [('/', ['a', 'b'], '-1')],
                              'chunk-calls': []},
                 'coords-none': {'type': 'DataTree',
                                 'paths': ['/'],
                                 'datasets': {'/': {'type': 'Dataset',
                                                    'sizes': "{'x': 3, 'y': 4}",
                                                    'data_vars': ['a'],
                                                    'coords': ['b'],
                                                    'attrs': "{'k': 1}",
                                                    'variables': {'a': {'type': 'Variable',
                                                                        'dims': ('x',),
                                                                        'shape': (3,),
                                                                        'dtype': 'int8',
                                                                        'attrs': "{'a': 1}",
                                                                        'encoding': '{}',
                                                                        'in-memory': True,
                                                                        'data-types': ['ndarray'],
                                                                        'values': '[1, 2, 3]'},
                                                                  'b': {'type': 'Variable',
                                                                        'dims': ('x', 'y'),
                                                                        'shape': (3, 4),
                                                                        'dtype': 'int64',
                                                                        'attrs': "{'b': 'abc'}",
                                                                        'encoding': '{}',
                                                                        'in-memory': True,
                                                                        'data-types': ['ndarray'],
                                                                        'values': '[[0, 1, 2, 3], '
                                                                                  '[4, 5, 6, 7], '
                                                                                  '[8, 9, 10, '
                                                                                  '11]]'}}}},
                                 'to_dataset-calls': [('/', ['a', 'b'], 'None'),
                                                      ('/', ['a', 'b'], 'None')],
                                 'chunk-calls': []},
                 'coords-x-y-unknown': {'type': 'DataTree',
                                        'paths': ['/'],
                                        'datasets': {'/': {'type': 'Dataset',
                                                           'sizes': "{'x': 3, 'y': 4}",
                                                           'data_vars': ['a'],
                                                           'coords': ['b'],
                                                           'attrs': "{'k': 1, 'chunked_with': "
                                                                    '"{\'x\': 1, \'y\': 2}"}',
                                                           'variables': {'a': {'type': 'Variable',
                                                                               'dims': ('x',),
                                                                               'shape': (3,),
                                                                               'dtype': 'int8',
                                                                               'attrs': "{'a': 1}",
                                                                               'encoding': '{}',
                                                                               'in-memory': True,
                                                                               'data-types': ['ndarray'],
                                                                               'values': '[1, 2, '
                                                                                         '3]'},
                                                                         'b': {'type': 'Variable',
                                                                               'dims': ('x', 'y'),
                                                                               'shape': (3, 4),
                                                                               'dtype': 'int64',
                                                                               'attrs': "{'b': "
                                                                                        "'abc'}",
                                                                               'encoding': '{}',
                                                                               'in-memory': True,
                                                                               'data-types': ['ndarray'],
                                                                               'values': '[[0, 1, '
                                                                                         '2, 3], '
                                                                                         '[4, 5, '
                                                                                         '6, 7], '
                                                                                         '[8, 9, '
                                                                                         '10, '
                                                                                         '11]]'}}}},
                                        'to_dataset-calls': [('/',
                                                              ['a', 'b'],
                                                              "{'x': 1, 'y': 2, 'unknown': 5}"),
                                                             ('/',
                                                              ['a', 'b'],
                                                              "{'x': 1, 'y': 2, 'unknown': 5}")],
                                        'chunk-calls': [(['a', 'b'], "{'x': 1, 'y': 2}", 'dict'),
                                                        (['a', 'b'], "{'x': 1, 'y': 2}", 'dict')]},
                 'coords-all-none': {'type': 'DataTree',
                                     'paths': ['/'],
                                     'datasets': {'/': {'type': 'Dataset',
                                                        'sizes': "{'x': 3, 'y': 4}",
                                                        'data_vars': [],
                                                        'coords': ['a', 'b'],
                                                        'attrs': '{}',
                                                        'variables': {'a': {'type': 'Variable',
                                                                            'dims': ('x',),
                                                                            'shape': (3,),
                                                                            'dtype': 'int8',
                                                                            'attrs': "{'a': 1}",
                                                                            'encoding': '{}',
                                                                            'in-memory': True,
                                                                            'data-types': ['ndarray'],
                                                                            'values': '[1, 2, 3]'},
                                                                      'b': {'type': 'Variable',
                                                                            'dims': ('x', 'y'),
                                                                            'shape': (3, 4),
                                                                            'dtype': 'int64',
                                                                            'attrs': "{'b': 'abc'}",
                                                                            'encoding': '{}',
                                                                            'in-memory': True,
                                                                            'data-types': ['ndarray'],
                                                                            'values': '[[0, 1, 2, '
                                                                                      '3], [4, 5, '
                                                                                      '6, 7], [8, '
                                                                                      '9, 10, '
                                                                                      '11]]'}}}},
                                     'to_dataset-calls': [('/', ['a', 'b'], 'None'),
                                                          ('/', ['a', 'b'], 'None')],
                                     'chunk-calls': []},
                 'coords-all-x-y-unknown': {'type': 'DataTree',
                                            'paths': ['/'],
                                            'datasets': {'/': {'type': 'Dataset',
                                                               'sizes': "{'x': 3, 'y': 4}",
                                                               'data_vars': [],
                                                               'coords': ['a', 'b'],
                                                               'attrs': "{'chunked_with': "
                                                                        '"{\'x\': 1, \'y\': 2}"}',
                                                               'variables': {'a': {'type': 'Variable',
                                                                                   'dims': ('x',),
                                                                                   'shape': (3,),
                                                                                   'dtype': 'int8',
                                                                                   'attrs': "{'a': "
                                                                                            '1}',
                                                                                   'encoding': '{}',
                                                                                   'in-memory': True,
                                                                                   'data-types': ['ndarray'],
                                                                                   'values': '[1, '
                                                                                             '2, '
                                                                                             '3]'},
                                                                             'b': {'type': 'Variable',
                                                                                   'dims': ('x',
                                                                                            'y'),
                                                                                   'shape': (3, 4),
                                                                                   'dtype': 'int64',
                                                                                   'attrs': "{'b': "
                                                                                            "'abc'}",
                                                                                   'encoding': '{}',
                                                                                   'in-memory': True,
                                                                                   'data-types': ['ndarray'],
                                                                                   'values': '[[0, '
                                                                                             '1, '
                                                                                             '2, '
                                                                                             '3], '
                                                                                             '[4, '
                                                                                             '5, '
                                                                                             '6, '
                                                                                             '7], '
                                                                                             '[8, '
                                                                                             '9, '
                                                                                             '10, '
                                                                                             '11]]'}}}},
                                            'to_dataset-calls': [('/',
                                                                  ['a', 'b'],
                                                                  "{'x': 1, 'y': 2, 'unknown': 5}"),
                                                                 ('/',
                                                                  ['a', 'b'],
                                                                  "{'x': 1, 'y': 2, 'unknown': "
                                                                  '5}')],
                                            'chunk-calls': [(['a', 'b'],
                                                             "{'x': 1, 'y': 2}",
                                                             'dict'),
                                                            (['a', 'b'],
                                                             "{'x': 1, 'y': 2}",
                                                             'dict')]},
                 'coords-empty-none': {'type': 'DataTree',
                                       'paths': ['/'],
                                       'datasets': {'/': {'type': 'Dataset',
                                                          'sizes': "{'x': 3, 'y': 4}",
                                                          'data_vars': ['a', 'b'],
                                                          'coords': [],
                                                          'attrs': '{}',
                                                          'variables': {'a': {'type': 'Variable',
                                                                              'dims': ('x',),
                                                                              'shape': (3,),
                                                                              'dtype': 'int8',
                                                                              'attrs': "{'a': 1}",
                                                                              'encoding': '{}',
                                                                              'in-memory': True,
                                                                              'data-types': ['ndarray'],
                                                                              'values': '[1, 2, '
                                                                                        '3]'},
                                                                        'b': {'type': 'Variable',
                                                                              'dims': ('x', 'y'),
                                                                              'shape': (3, 4),
                                                                              'dtype': 'int64',
                                                                              'attrs': "{'b': "
                                                                                       "'abc'}",
                                                                              'encoding': '{}',
                                                                              'in-memory': True,
                                                                              'data-types': ['ndarray'],
                                                                              'values': '[[0, 1, '
                                                                                        '2, 3], '
                                                                                        '[4, 5, 6, '
                                                                                        '7], [8, '
                                                                                        '9, 10, '
                                                                                        '11]]'}}}},
                                       'to_dataset-calls': [('/', ['a', 'b'], 'None'),
                                                            ('/', ['a', 'b'], 'None')],
                                       'chunk-calls': []},
                 'coords-empty-x-y-unknown': {'type': 'DataTree',
                                              'paths': ['/'],
                                              'datasets': {'/': {'type': 'Dataset',
                                                                 'sizes': "{'x': 3, 'y': 4}",
                                                                 'data_vars': ['a', 'b'],
                                                                 'coords': [],
                                                                 'attrs': "{'chunked_with': "
                                                                          '"{\'x\': 1, \'y\': 2}"}',
                                                                 'variables': {'a': {'type': 'Variable',
                                                                                     'dims': ('x',),
                                                                                     'shape': (3,),
                                                                                     'dtype': 'int8',
                                                                                     'attrs': "{'a': "
                                                                                              '1}',
                                                                                     'encoding': '{}',
                                                                                     'in-memory': True,
                                                                                     'data-types': ['ndarray'],
                                                                                     'values': '[1, '
                                                                                               '2, '
                                                                                               '3]'},
                                                                               'b': {'type': 'Variable',
                                                                                     'dims': ('x',
                                                                                              'y'),
                                                                                     'shape': (3,
                                                                                               4),
                                                                                     'dtype': 'int64',
                                                                                     'attrs': "{'b': "
                                                                                              "'abc'}",
                                                                                     'encoding': '{}',
                                                                                     'in-memory': True,
                                                                                     'data-types': ['ndarray'],
                                                                                     'values': '[[0, '
                                                                                               '1, '
                                                                                               '2, '
                                                                                               '3], '
                                                                                               '[4, '
                                                                                               '5, '
                                                                                               '6, '
                                                                                               '7], '
                                                                                               '[8, '
                                                                                               '9, '
                                                                                               '10, '
                                                                                               '11]]'}}}},
                                              'to_dataset-calls': [('/',
                                                                    ['a', 'b'],
                                                                    "{'x': 1, 'y': 2, 'unknown': "
                                                                    '5}'),
                                                                   ('/',
                                                                    ['a', 'b'],
                                                                    "{'x': 1, 'y': 2, 'unknown': "
                                                                    '5}')],
                                              'chunk-calls': [(['a', 'b'],
                                                               "{'x': 1, 'y': 2}",
                                                               'dict'),
                                                              (['a', 'b'],
                                                               "{'x': 1, 'y': 2}",
                                                               'dict')]},
                 'coords-str-none': {'type': 'DataTree',
                                     'paths': ['/'],
                                     'datasets': {'/': {'type': 'Dataset',
                                                        'sizes': "{'x': 3, 'y': 4}",
                                                        'data_vars': ['b'],
                                                        'coords': ['a'],
                                                        'attrs': '{}',
                                                        'variables': {'b': {'type': 'Variable',
                                                                            'dims': ('x', 'y'),
                                                                            'shape': (3, 4),
                                                                            'dtype': 'int64',
                                                                            'attrs': "{'b': 'abc'}",
                                                                            'encoding': '{}',
                                                                            'in-memory': True,
                                                                            'data-types': ['ndarray'],
                                                                            'values': '[[0, 1, 2, '
                                                                                      '3], [4, 5, '
                                                                                      '6, 7], [8, '
                                                                                      '9, 10, '
                                                                                      '11]]'},
                                                                      'a': {'type': 'Variable',
                                                                            'dims': ('x',),
                                                                            'shape': (3,),
                                                                            'dtype': 'int8',
                                                                            'attrs': "{'a': 1}",
                                                                            'encoding': '{}',
                                                                            'in-memory': True,
                                                                            'data-types': ['ndarray'],
                                                                            'values': '[1, 2, '
                                                                                      '3]'}}}},
                                     'to_dataset-calls': [('/', ['a', 'b'], 'None'),
                                                          ('/', ['a', 'b'], 'None')],
                                     'chunk-calls': []},
                 'coords-str-x-y-unknown': {'type': 'DataTree',
                                            'paths': ['/'],
                                            'datasets': {'/': {'type': 'Dataset',
                                                               'sizes': "{'x': 3, 'y': 4}",
                                                               'data_vars': ['b'],
                                                               'coords': ['a'],
                                                               'attrs': "{'chunked_with': "
                                                                        '"{\'x\': 1, \'y\': 2}"}',
                                                               'variables': {'b': {'type': 'Variable',
                                                                                   'dims': ('x',
                                                                                            'y'),
                                                                                   'shape': (3, 4),
                                                                                   'dtype': 'int64',
                                                                                   'attrs': "{'b': "
                                                                                            "'abc'}",
                                                                                   'encoding': '{}',
                                                                                   'in-memory': True,
                                                                                   'data-types': ['ndarray'],
                                                                                   'values': '[[0, '
                                                                                             '1, '
                                                                                             '2, '
                                                                                             '3], '
                                                                                             '[4, '
                                                                                             '5, '
                                                                                             '6, '
                                                                                             '7], '
                                                                                             '[8, '
                                                                                             '9, '
                                                                                             '10, '
                                                                                             '11]]'},
                                                                             'a': {'type': 'Variable',
                                                                                   'dims': ('x',),
                                                                                   'shape': (3,),
                                                                                   'dtype': 'int8',
                                                                                   'attrs': "{'a': "
                                                                                            '1}',
                                                                                   'encoding': '{}',
                                                                                   'in-memory': True,
                                                                                   'data-types': ['ndarray'],
                                                                                   'values': '[1, '
                                                                                             '2, '
                                                                                             '3]'}}}},
                                            'to_dataset-calls': [('/',
                                                                  ['a', 'b'],
                                                                  "{'x': 1, 'y': 2, 'unknown': 5}"),
                                                                 ('/',
                                                                  ['a', 'b'],
                                                                  "{'x': 1, 'y': 2, 'unknown': "
                                                                  '5}')],
                                            'chunk-calls': [(['a', 'b'],
                                                             "{'x': 1, 'y': 2}",
                                                             'dict'),
                                                            (['a', 'b'],
                                                             "{'x': 1, 'y': 2}",
                                                             'dict')]},
                 'coords-missing-none': {'raises': ['ValueError: These variables cannot be found '
                                                    "in this dataset: ['zz']"],
                                         'to_dataset-calls': [('/', ['a', 'b'], 'None')],
                                         'chunk-calls': []},
                 'coords-missing-x-y-unknown': {'raises': ['ValueError: These variables cannot be '
                                                           "found in this dataset: ['zz']"],
                                                'to_dataset-calls': [('/',
                                                                      ['a', 'b'],
                                                                      "{'x': 1, 'y': 2, 'unknown': "
                                                                      '5}')],
                                                'chunk-calls': []},
                 'image-none': {'type': 'DataTree',
                                'paths': ['/'],
                                'datasets': {'/': {'type': 'Dataset',
                                                   'sizes': "{'rows': 4, 'cols': 6}",
                                                   'data_vars': ['data'],
                                                   'coords': ['rows', 't'],
                                                   'attrs': '{}',
                                                   'variables': {'data': {'type': 'Variable',
                                                                          'dims': ('rows', 'cols'),
                                                                          'shape': (4, 6),
                                                                          'dtype': 'uint16',
                                                                          'attrs': "{'units': "
                                                                                   "'dn'}",
                                                                          'encoding': "{'preferred_chunksizes': "
                                                                                      "{'rows': 2, "
                                                                                      "'cols': 6}}",
                                                                          'in-memory': False,
                                                                          'data-types': ['LazilyIndexedArray',
                                                                                         'LazilyIndexedWrapper',
                                                                                         'lock=SerializableLock',
                                                                                         'Array'],
                                                                          'values': '[[0, 11, 22, '
                                                                                    '33, 44, 55], '
                                                                                    '[66, 77, 88, '
                                                                                    '99, 110, '
                                                                                    '121], [132, '
                                                                                    '143, 154, '
                                                                                    '165, 176, '
                                                                                    '187], [198, '
                                                                                    '209, 220, '
                                                                                    '231, 242, '
                                                                                    '253]]'},
                                                                 'rows': {'type': 'IndexVariable',
                                                                          'dims': ('rows',),
                                                                          'shape': (4,),
                                                                          'dtype': 'float64',
                                                                          'attrs': '{}',
                                                                          'encoding': '{}',
                                                                          'in-memory': True,
                                                                          'data-types': ['PandasIndexingAdapter',
                                                                                         'Index',
                                                                                         'NumpyExtensionArray'],
                                                                          'values': '[0.0, 2.5, '
                                                                                    '5.0, 7.5]'},
                                                                 't': {'type': 'Variable',
                                                                       'dims': ('rows',),
                                                                       'shape': (4,),
                                                                       'dtype': 'int64',
                                                                       'attrs': "{'long_name': "
                                                                                "'time'}",
                                                                       'encoding': '{}',
                                                                       'in-memory': True,
                                                                       'data-types': ['ndarray'],
                                                                       'values': '[0, 1, 2, 3]'}}}},
                                'to_dataset-calls': [('/', ['data', 'rows', 't'], 'None'),
                                                     ('/', ['data', 'rows', 't'], 'None')],
                                'chunk-calls': []},
                 'image-x-y-unknown': {'type': 'DataTree',
                                       'paths': ['/'],
                                       'datasets': {'/': {'type': 'Dataset',
                                                          'sizes': "{'rows': 4, 'cols': 6}",
                                                          'data_vars': ['data'],
                                                          'coords': ['rows', 't'],
                                                          'attrs': "{'chunked_with': '{}'}",
                                                          'variables': {'data': {'type': 'Variable',
                                                                                 'dims': ('rows',
                                                                                          'cols'),
                                                                                 'shape': (4, 6),
                                                                                 'dtype': 'uint16',
                                                                                 'attrs': "{'units': "
                                                                                          "'dn'}",
                                                                                 'encoding': "{'preferred_chunksizes': "
                                                                                             "{'rows': "
                                                                                             '2, '
                                                                                             "'cols': "
                                                                                             '6}}',
                                                                                 'in-memory': False,
                                                                                 'data-types': ['LazilyIndexedArray',
                                                                                                'LazilyIndexedWrapper',
                                                                                                'lock=SerializableLock',
                                                                                                'Array'],
                                                                                 'values': '[[0, '
                                                                                           '11, '
                                                                                           '22, '
                                                                                           '33, '
                                                                                           '44, '
                                                                                           '55], '
                                                                                           '[66, '
                                                                                           '77, '
                                                                                           '88, '
                                                                                           '99, '
                                                                                           '110, '
                                                                                           '121], '
                                                                                           '[132, '
                                                                                           '143, '
                                                                                           '154, '
                                                                                           '165, '
                                                                                           '176, '
                                                                                           '187], '
                                                                                           '[198, '
                                                                                           '209, '
                                                                                           '220, '
                                                                                           '231, '
                                                                                           '242, '
                                                                                           '253]]'},
                                                                        'rows': {'type': 'IndexVariable',
                                                                                 'dims': ('rows',),
                                                                                 'shape': (4,),
                                                                                 'dtype': 'float64',
                                                                                 'attrs': '{}',
                                                                                 'encoding': '{}',
                                                                                 'in-memory': True,
                                                                                 'data-types': ['PandasIndexingAdapter',
                                                                                                'Index',
                                                                                                'NumpyExtensionArray'],
                                                                                 'values': '[0.0, '
                                                                                           '2.5, '
                                                                                           '5.0, '
                                                                                           '7.5]'},
                                                                        't': {'type': 'Variable',
                                                                              'dims': ('rows',),
                                                                              'shape': (4,),
                                                                              'dtype': 'int64',
                                                                              'attrs': "{'long_name': "
                                                                                       "'time'}",
                                                                              'encoding': '{}',
                                                                              'in-memory': True,
                                                                              'data-types': ['ndarray'],
                                                                              'values': '[0, 1, 2, '
                                                                                        '3]'}}}},
                                       'to_dataset-calls': [('/',
                                                             ['data', 'rows', 't'],
                                                             "{'x': 1, 'y': 2, 'unknown': 5}"),
                                                            ('/',
                                                             ['data', 'rows', 't'],
                                                             "{'x': 1, 'y': 2, 'unknown': 5}")],
                                       'chunk-calls': [(['data', 'rows', 't'], '{}', 'dict'),
                                                       (['data', 'rows', 't'], '{}', 'dict')]},
                 'conflicting-sizes-none': {'raises': ['ValueError: conflicting sizes for '
                                                       "dimension 'x': length 4 on 'b' and length "
                                                       "3 on {'x': 'a'}"],
                                            'to_dataset-calls': [('/', ['a', 'b'], 'None')],
                                            'chunk-calls': []},
                 'conflicting-sizes-x-y-unknown': {'raises': ['ValueError: conflicting sizes for '
                                                              "dimension 'x': length 4 on 'b' and "
                                                              "length 3 on {'x': 'a'}"],
                                                   'to_dataset-calls': [('/',
                                                                         ['a', 'b'],
                                                                         "{'x': 1, 'y': 2, "
                                                                         "'unknown': 5}")],
                                                   'chunk-calls': []},
                 'nested-none': {'type': 'DataTree',
                                 'paths': ['/', '/imagery', '/meta', '/meta/deep'],
                                 'datasets': {'/': {'type': 'Dataset',
                                                    'sizes': "{'p': 2}",
                                                    'data_vars': ['v'],
                                                    'coords': [],
                                                    'attrs': "{'root': True}",
                                                    'variables': {'v': {'type': 'Variable',
                                                                        'dims': ('p',),
                                                                        'shape': (2,),
                                                                        'dtype': 'int64',
                                                                        'attrs': '{}',
                                                                        'encoding': '{}',
                                                                        'in-memory': True,
                                                                        'data-types': ['ndarray'],
                                                                        'values': '[0, 1]'}}},
                                              '/imagery': {'type': 'Dataset',
                                                           'sizes': "{'rows': 4, 'cols': 6}",
                                                           'data_vars': ['data'],
                                                           'coords': ['rows', 't'],
                                                           'attrs': '{}',
                                                           'variables': {'data': {'type': 'Variable',
                                                                                  'dims': ('rows',
                                                                                           'cols'),
                                                                                  'shape': (4, 6),
                                                                                  'dtype': 'uint16',
                                                                                  'attrs': "{'units': "
                                                                                           "'dn'}",
                                                                                  'encoding': "{'preferred_chunksizes': "
                                                                                              "{'rows': "
                                                                                              '2, '
                                                                                              "'cols': "
                                                                                              '6}}',
                                                                                  'in-memory': False,
                                                                                  'data-types': ['LazilyIndexedArray',
                                                                                                 'LazilyIndexedWrapper',
                                                                                                 'lock=SerializableLock',
                                                                                                 'Array'],
                                                                                  'values': '[[0, '
                                                                                            '11, '
                                                                                            '22, '
                                                                                            '33, '
                                                                                            '44, '
                                                                                            '55], '
                                                                                            '[66, '
                                                                                            '77, '
                                                                                            '88, '
                                                                                            '99, '
                                                                                            '110, '
                                                                                            '121], '
                                                                                            '[132, '
                                                                                            '143, '
                                                                                            '154, '
                                                                                            '165, '
                                                                                            '176, '
                                                                                            '187], '
                                                                                            '[198, '
                                                                                            '209, '
                                                                                            '220, '
                                                                                            '231, '
                                                                                            '242, '
                                                                                            '253]]'},
                                                                         'rows': {'type': 'IndexVariable',
                                                                                  'dims': ('rows',),
                                                                                  'shape': (4,),
                                                                                  'dtype': 'float64',
                                                                                  'attrs': '{}',
                                                                                  'encoding': '{}',
                                                                                  'in-memory': True,
                                                                                  'data-types': ['PandasIndexingAdapter',
                                                                                                 'Index',
                                                                                                 'NumpyExtensionArray'],
                                                                                  'values': '[0.0, '
                                                                                            '2.5, '
                                                                                            '5.0, '
                                                                                            '7.5]'},
                                                                         't': {'type': 'Variable',
                                                                               'dims': ('rows',),
                                                                               'shape': (4,),
                                                                               'dtype': 'int64',
                                                                               'attrs': "{'long_name': "
                                                                                        "'time'}",
                                                                               'encoding': '{}',
                                                                               'in-memory': True,
                                                                               'data-types': ['ndarray'],
                                                                               'values': '[0, 1, '
                                                                                         '2, 3]'}}},
                                              '/meta': {'type': 'Dataset',
                                                        'sizes': "{'q': 3}",
                                                        'data_vars': ['w'],
                                                        'coords': [],
                                                        'attrs': "{'level': 1}",
                                                        'variables': {'w': {'type': 'Variable',
                                                                            'dims': ('q',),
                                                                            'shape': (3,),
                                                                            'dtype': 'float64',
                                                                            'attrs': '{}',
                                                                            'encoding': '{}',
                                                                            'in-memory': True,
                                                                            'data-types': ['ndarray'],
                                                                            'values': '[0.0, 1.0, '
                                                                                      '2.0]'}}},
                                              '/meta/deep': {'type': 'Dataset',
                                                             'sizes': "{'x': 3, 'y': 4}",
                                                             'data_vars': ['a', 'b'],
                                                             'coords': [],
                                                             'attrs': "{'level': 2}",
                                                             'variables': {'a': {'type': 'Variable',
                                                                                 'dims': ('x',),
                                                                                 'shape': (3,),
                                                                                 'dtype': 'int8',
                                                                                 'attrs': "{'a': "
                                                                                          '1}',
                                                                                 'encoding': '{}',
                                                                                 'in-memory': True,
                                                                                 'data-types': ['ndarray'],
                                                                                 'values': '[1, 2, '
                                                                                           '3]'},
                                                                           'b': {'type': 'Variable',
                                                                                 'dims': ('x', 'y'),
                                                                                 'shape': (3, 4),
                                                                                 'dtype': 'int64',
                                                                                 'attrs': "{'b': "
                                                                                          "'abc'}",
                                                                                 'encoding': '{}',
                                                                                 'in-memory': True,
                                                                                 'data-types': ['ndarray'],
                                                                                 'values': '[[0, '
                                                                                           '1, 2, '
                                                                                           '3], '
                                                                                           '[4, 5, '
                                                                                           '6, 7], '
                                                                                           '[8, 9, '
                                                                                           '10, '
                                                                                           '11]]'}}}},
                                 'to_dataset-calls': [('/', ['imagery', 'meta', 'v'], 'None'),
                                                      ('/', ['v'], 'None'),
                                                      ('/imagery', ['data', 'rows', 't'], 'None'),
                                                      ('/meta', ['w'], 'None'),
                                                      ('/meta/deep', ['a', 'b'], 'None')],
                                 'chunk-calls': []},
                 'nested-x-y-unknown': {'type': 'DataTree',
                                        'paths': ['/', '/imagery', '/meta', '/meta/deep'],
                                        'datasets': {'/': {'type': 'Dataset',
                                                           'sizes': "{'p': 2}",
                                                           'data_vars': ['v'],
                                                           'coords': [],
                                                           'attrs': "{'root': True, "
                                                                    "'chunked_with': '{}'}",
                                                           'variables': {'v': {'type': 'Variable',
                                                                               'dims': ('p',),
                                                                               'shape': (2,),
                                                                               'dtype': 'int64',
                                                                               'attrs': '{}',
                                                                               'encoding': '{}',
                                                                               'in-memory': True,
                                                                               'data-types': ['ndarray'],
                                                                               'values': '[0, '
                                                                                         '1]'}}},
                                                     '/imagery': {'type': 'Dataset',
                                                                  'sizes': "{'rows': 4, 'cols': 6}",
                                                                  'data_vars': ['data'],
                                                                  'coords': ['rows', 't'],
                                                                  'attrs': "{'chunked_with': '{}'}",
                                                                  'variables': {'data': {'type': 'Variable',
                                                                                         'dims': ('rows',
                                                                                                  'cols'),
                                                                                         'shape': (4,
                                                                                                   6),
                                                                                         'dtype': 'uint16',
                                                                                         'attrs': "{'units': "
                                                                                                  "'dn'}",
                                                                                         'encoding': "{'preferred_chunksizes': "
                                                                                                     "{'rows': "
                                                                                                     '2, '
                                                                                                     "'cols': "
                                                                                                     '6}}',
                                                                                         'in-memory': False,
                                                                                         'data-types': ['LazilyIndexedArray',
                                                                                                        'LazilyIndexedWrapper',
                                                                                                        'lock=SerializableLock',
                                                                                                        'Array'],
                                                                                         'values': '[[0, '
                                                                                                   '11, '
                                                                                                   '22, '
                                                                                                   '33, '
                                                                                                   '44, '
                                                                                                   '55], '
                                                                                                   '[66, '
                                                                                                   '77, '
                                                                                                   '88, '
                                                                                                   '99, '
                                                                                                   '110, '
                                                                                                   '121], '
                                                                                                   '[132, '
                                                                                                   '143, '
                                                                                                   '154, '
                                                                                                   '165, '
                                                                                                   '176, '
                                                                                                   '187], '
                                                                                                   '[198, '
                                                                                                   '209, '
                                                                                                   '220, '
                                                                                                   '231, '
                                                                                                   '242, '
                                                                                                   '253]]'},
                                                                                'rows': {'type': 'IndexVariable',
                                                                                         'dims': ('rows',),
                                                                                         'shape': (4,),
                                                                                         'dtype': 'float64',
                                                                                         'attrs': '{}',
                                                                                         'encoding': '{}',
                                                                                         'in-memory': True,
                                                                                         'data-types': ['PandasIndexingAdapter',
                                                                                                        'Index',
                                                                                                        'NumpyExtensionArray'],
                                                                                         'values': '[0.0, '
                                                                                                   '2.5, '
                                                                                                   '5.0, '
                                                                                                   '7.5]'},
                                                                                't': {'type': 'Variable',
                                                                                      'dims': ('rows',),
                                                                                      'shape': (4,),
                                                                                      'dtype': 'int64',
                                                                                      'attrs': "{'long_name': "
                                                                                               "'time'}",
                                                                                      'encoding': '{}',
                                                                                      'in-memory': True,
                                                                                      'data-types': ['ndarray'],
                                                                                      'values': '[0, '
                                                                                                '1, '
                                                                                                '2, '
                                                                                                '3]'}}},
                                                     '/meta': {'type': 'Dataset',
                                                               'sizes': "{'q': 3}",
                                                               'data_vars': ['w'],
                                                               'coords': [],
                                                               'attrs': "{'level': 1, "
                                                                        "'chunked_with': '{}'}",
                                                               'variables': {'w': {'type': 'Variable',
                                                                                   'dims': ('q',),
                                                                                   'shape': (3,),
                                                                                   'dtype': 'float64',
                                                                                   'attrs': '{}',
                                                                                   'encoding': '{}',
                                                                                   'in-memory': True,
                                                                                   'data-types': ['ndarray'],
                                                                                   'values': '[0.0, '
                                                                                             '1.0, '
                                                                                             '2.0]'}}},
                                                     '/meta/deep': {'type': 'Dataset',
                                                                    'sizes': "{'x': 3, 'y': 4}",
                                                                    'data_vars': ['a', 'b'],
                                                                    'coords': [],
                                                                    'attrs': "{'level': 2, "
                                                                             "'chunked_with': "
                                                                             '"{\'x\': 1, \'y\': '
                                                                             '2}"}',
                                                                    'variables': {'a': {'type': 'Variable',
                                                                                        'dims': ('x',),
                                                                                        'shape': (3,),
                                                                                        'dtype': 'int8',
                                                                                        'attrs': "{'a': "
                                                                                                 '1}',
                                                                                        'encoding': '{}',
                                                                                        'in-memory': True,
                                                                                        'data-types': ['ndarray'],
                                                                                        'values': '[1, '
                                                                                                  '2, '
                                                                                                  '3]'},
                                                                                  'b': {'type': 'Variable',
                                                                                        'dims': ('x',
                                                                                                 'y'),
                                                                                        'shape': (3,
                                                                                                  4),
                                                                                        'dtype': 'int64',
                                                                                        'attrs': "{'b': "
                                                                                                 "'abc'}",
                                                                                        'encoding': '{}',
                                                                                        'in-memory': True,
                                                                                        'data-types': ['ndarray'],
                                                                                        'values': '[[0, '
                                                                                                  '1, '
                                                                                                  '2, '
                                                                                                  '3], '
                                                                                                  '[4, '
                                                                                                  '5, '
                                                                                                  '6, '
                                                                                                  '7], '
                                                                                                  '[8, '
                                                                                                  '9, '
                                                                                                  '10, '
                                                                                                  '11]]'}}}},
                                        'to_dataset-calls': [('/',
                                                              ['imagery', 'meta', 'v'],
                                                              "{'x': 1, 'y': 2, 'unknown': 5}"),
                                                             ('/',
                                                              ['v'],
                                                              "{'x': 1, 'y': 2, 'unknown': 5}"),
                                                             ('/imagery',
                                                              ['data', 'rows', 't'],
                                                              "{'x': 1, 'y': 2, 'unknown': 5}"),
                                                             ('/meta',
                                                              ['w'],
                                                              "{'x': 1, 'y': 2, 'unknown': 5}"),
                                                             ('/meta/deep',
                                                              ['a', 'b'],
                                                              "{'x': 1, 'y': 2, 'unknown': 5}")],
                                        'chunk-calls': [(['v'], '{}', 'dict'),
                                                        (['v'], '{}', 'dict'),
                                                        (['data', 'rows', 't'], '{}', 'dict'),
                                                        (['w'], '{}', 'dict'),
                                                        (['a', 'b'], "{'x': 1, 'y': 2}", 'dict')]},
                 'nested-int': {'raises': ["AttributeError: 'int' object has no attribute 'items'"],
                                'to_dataset-calls': [('/', ['imagery', 'meta', 'v'], '-1')],
                                'chunk-calls': []},
                 'nested-misaligned-none': {'raises': ["ValueError: group '/child' is not aligned "
                                                       'with its parents:\n'
                                                       'Group:\n'
                                                       '    Dimensions:  (x: 3, y: 4)\n'
                                                       '    Dimensions without coordinates: x, y\n'
                                                       '    Data variables:\n'
                                                       '        a        (x) int8 3B 1 2 3\n'
                                                       '        b        (x, y) int64 96B 0 1 2 3 '
                                                       '4 5 6 7 8 9 10 11\n'
                                                       'From parents:\n'
                                                       '    Dimensions:  (x: 2)\n'
                                                       '    Dimensions without coordinates: x',
                                                       'AlignmentError: cannot reindex or align '
                                                       "along dimension 'x' because of conflicting "
                                                       'dimension sizes: {2, 3}'],
                                            'to_dataset-calls': [('/', ['child', 'v'], 'None'),
                                                                 ('/', ['v'], 'None'),
                                                                 ('/child', ['a', 'b'], 'None')],
                                            'chunk-calls': []},
                 'nested-misaligned-x-y-unknown': {'raises': ["ValueError: group '/child' is not "
                                                              'aligned with its parents:\n'
                                                              'Group:\n'
                                                              '    Dimensions:  (x: 3, y: 4)\n'
                                                              '    Dimensions without coordinates: '
                                                              'x, y\n'
                                                              '    Data variables:\n'
                                                              '        a        (x) int8 3B 1 2 3\n'
                                                              '        b        (x, y) int64 96B 0 '
                                                              '1 2 3 4 5 6 7 8 9 10 11\n'
                                                              '    Attributes:\n'
                                                              "        chunked_with:  {'x': 1, "
                                                              "'y': 2}\n"
                                                              'From parents:\n'
                                                              '    Dimensions:  (x: 2)\n'
                                                              '    Dimensions without coordinates: '
                                                              'x',
                                                              'AlignmentError: cannot reindex or '
                                                              "align along dimension 'x' because "
                                                              'of conflicting dimension sizes: {2, '
                                                              '3}'],
                                                   'to_dataset-calls': [('/',
                                                                         ['child', 'v'],
                                                                         "{'x': 1, 'y': 2, "
                                                                         "'unknown': 5}"),
                                                                        ('/',
                                                                         ['v'],
                                                                         "{'x': 1, 'y': 2, "
                                                                         "'unknown': 5}"),
                                                                        ('/child',
                                                                         ['a', 'b'],
                                                                         "{'x': 1, 'y': 2, "
                                                                         "'unknown': 5}")],
                                                   'chunk-calls': [(['v'], "{'x': 1}", 'dict'),
                                                                   (['v'], "{'x': 1}", 'dict'),
                                                                   (['a', 'b'],
                                                                    "{'x': 1, 'y': 2}",
                                                                    'dict')]},
                 'non-root-none': {'type': 'DataTree',
                                   'paths': ['/', '/sub', '/sub/group'],
                                   'datasets': {'/': {'type': 'Dataset',
                                                      'sizes': "{'x': 3, 'y': 4}",
                                                      'data_vars': ['a', 'b'],
                                                      'coords': [],
                                                      'attrs': "{'n': 1}",
                                                      'variables': {'a': {'type': 'Variable',
                                                                          'dims': ('x',),
                                                                          'shape': (3,),
                                                                          'dtype': 'int8',
                                                                          'attrs': "{'a': 1}",
                                                                          'encoding': '{}',
                                                                          'in-memory': True,
                                                                          'data-types': ['ndarray'],
                                                                          'values': '[1, 2, 3]'},
                                                                    'b': {'type': 'Variable',
                                                                          'dims': ('x', 'y'),
                                                                          'shape': (3, 4),
                                                                          'dtype': 'int64',
                                                                          'attrs': "{'b': 'abc'}",
                                                                          'encoding': '{}',
                                                                          'in-memory': True,
                                                                          'data-types': ['ndarray'],
                                                                          'values': '[[0, 1, 2, '
                                                                                    '3], [4, 5, 6, '
                                                                                    '7], [8, 9, '
                                                                                    '10, 11]]'}}},
                                                '/sub': {'type': 'Dataset',
                                                         'sizes': '{}',
                                                         'data_vars': [],
                                                         'coords': [],
                                                         'attrs': '{}',
                                                         'variables': {}},
                                                '/sub/group': {'type': 'Dataset',
                                                               'sizes': "{'x': 3, 'y': 4}",
                                                               'data_vars': ['a', 'b'],
                                                               'coords': [],
                                                               'attrs': "{'n': 1}",
                                                               'variables': {'a': {'type': 'Variable',
                                                                                   'dims': ('x',),
                                                                                   'shape': (3,),
                                                                                   'dtype': 'int8',
                                                                                   'attrs': "{'a': "
                                                                                            '1}',
                                                                                   'encoding': '{}',
                                                                                   'in-memory': True,
                                                                                   'data-types': ['ndarray'],
                                                                                   'values': '[1, '
                                                                                             '2, '
                                                                                             '3]'},
                                                                             'b': {'type': 'Variable',
                                                                                   'dims': ('x',
                                                                                            'y'),
                                                                                   'shape': (3, 4),
                                                                                   'dtype': 'int64',
                                                                                   'attrs': "{'b': "
                                                                                            "'abc'}",
                                                                                   'encoding': '{}',
                                                                                   'in-memory': True,
                                                                                   'data-types': ['ndarray'],
                                                                                   'values': '[[0, '
                                                                                             '1, '
                                                                                             '2, '
                                                                                             '3], '
                                                                                             '[4, '
                                                                                             '5, '
                                                                                             '6, '
                                                                                             '7], '
                                                                                             '[8, '
                                                                                             '9, '
                                                                                             '10, '
                                                                                             '11]]'}}}},
                                   'to_dataset-calls': [('sub/group', ['a', 'b'], 'None'),
                                                        ('sub/group', ['a', 'b'], 'None')],
                                   'chunk-calls': []},
                 'non-root-x-y-unknown': {'type': 'DataTree',
                                          'paths': ['/', '/sub', '/sub/group'],
                                          'datasets': {'/': {'type': 'Dataset',
                                                             'sizes': "{'x': 3, 'y': 4}",
                                                             'data_vars': ['a', 'b'],
                                                             'coords': [],
                                                             'attrs': "{'n': 1, 'chunked_with': "
                                                                      '"{\'x\': 1, \'y\': 2}"}',
                                                             'variables': {'a': {'type': 'Variable',
                                                                                 'dims': ('x',),
                                                                                 'shape': (3,),
                                                                                 'dtype': 'int8',
                                                                                 'attrs': "{'a': "
                                                                                          '1}',
                                                                                 'encoding': '{}',
                                                                                 'in-memory': True,
                                                                                 'data-types': ['ndarray'],
                                                                                 'values': '[1, 2, '
                                                                                           '3]'},
                                                                           'b': {'type': 'Variable',
                                                                                 'dims': ('x', 'y'),
                                                                                 'shape': (3, 4),
                                                                                 'dtype': 'int64',
                                                                                 'attrs': "{'b': "
                                                                                          "'abc'}",
                                                                                 'encoding': '{}',
                                                                                 'in-memory': True,
                                                                                 'data-types': ['ndarray'],
                                                                                 'values': '[[0, '
                                                                                           '1, 2, '
                                                                                           '3], '
                                                                                           '[4, 5, '
                                                                                           '6, 7], '
                                                                                           '[8, 9, '
                                                                                           '10, '
                                                                                           '11]]'}}},
                                                       '/sub': {'type': 'Dataset',
                                                                'sizes': '{}',
                                                                'data_vars': [],
                                                                'coords': [],
                                                                'attrs': '{}',
                                                                'variables': {}},
                                                       '/sub/group': {'type': 'Dataset',
                                                                      'sizes': "{'x': 3, 'y': 4}",
                                                                      'data_vars': ['a', 'b'],
                                                                      'coords': [],
                                                                      'attrs': "{'n': 1, "
                                                                               "'chunked_with': "
                                                                               '"{\'x\': 1, \'y\': '
                                                                               '2}"}',
                                                                      'variables': {'a': {'type': 'Variable',
                                                                                          'dims': ('x',),
                                                                                          'shape': (3,),
                                                                                          'dtype': 'int8',
                                                                                          'attrs': "{'a': "
                                                                                                   '1}',
                                                                                          'encoding': '{}',
                                                                                          'in-memory': True,
                                                                                          'data-types': ['ndarray'],
                                                                                          'values': '[1, '
                                                                                                    '2, '
                                                                                                    '3]'},
                                                                                    'b': {'type': 'Variable',
                                                                                          'dims': ('x',
                                                                                                   'y'),
                                                                                          'shape': (3,
                                                                                                    4),
                                                                                          'dtype': 'int64',
                                                                                          'attrs': "{'b': "
                                                                                                   "'abc'}",
                                                                                          'encoding': '{}',
                                                                                          'in-memory': True,
                                                                                          'data-types': ['ndarray'],
                                                                                          'values': '[[0, '
                                                                                                    '1, '
                                                                                                    '2, '
                                                                                                    '3], '
                                                                                                    '[4, '
                                                                                                    '5, '
                                                                                                    '6, '
                                                                                                    '7], '
                                                                                                    '[8, '
                                                                                                    '9, '
                                                                                                    '10, '
                                                                                                    '11]]'}}}},
                                          'to_dataset-calls': [('sub/group',
                                                                ['a', 'b'],
                                                                "{'x': 1, 'y': 2, 'unknown': 5}"),
                                                               ('sub/group',
                                                                ['a', 'b'],
                                                                "{'x': 1, 'y': 2, 'unknown': 5}")],
                                          'chunk-calls': [(['a', 'b'], "{'x': 1, 'y': 2}", 'dict'),
                                                          (['a', 'b'],
                                                           "{'x': 1, 'y': 2}",
                                                           'dict')]},
                 'non-root-nested-none': {'type': 'DataTree',
                                          'paths': ['/', '/sub', '/sub/inner'],
                                          'datasets': {'/': {'type': 'Dataset',
                                                             'sizes': '{}',
                                                             'data_vars': [],
                                                             'coords': [],
                                                             'attrs': '{}',
                                                             'variables': {}},
                                                       '/sub': {'type': 'Dataset',
                                                                'sizes': '{}',
                                                                'data_vars': [],
                                                                'coords': [],
                                                                'attrs': '{}',
                                                                'variables': {}},
                                                       '/sub/inner': {'type': 'Dataset',
                                                                      'sizes': "{'x': 3, 'y': 4}",
                                                                      'data_vars': ['a', 'b'],
                                                                      'coords': [],
                                                                      'attrs': '{}',
                                                                      'variables': {'a': {'type': 'Variable',
                                                                                          'dims': ('x',),
                                                                                          'shape': (3,),
                                                                                          'dtype': 'int8',
                                                                                          'attrs': "{'a': "
                                                                                                   '1}',
                                                                                          'encoding': '{}',
                                                                                          'in-memory': True,
                                                                                          'data-types': ['ndarray'],
                                                                                          'values': '[1, '
                                                                                                    '2, '
                                                                                                    '3]'},
                                                                                    'b': {'type': 'Variable',
                                                                                          'dims': ('x',
                                                                                                   'y'),
                                                                                          'shape': (3,
                                                                                                    4),
                                                                                          'dtype': 'int64',
                                                                                          'attrs': "{'b': "
                                                                                                   "'abc'}",
                                                                                          'encoding': '{}',
                                                                                          'in-memory': True,
                                                                                          'data-types': ['ndarray'],
                                                                                          'values': '[[0, '
                                                                                                    '1, '
                                                                                                    '2, '
                                                                                                    '3], '
                                                                                                    '[4, '
                                                                                                    '5, '
                                                                                                    '6, '
                                                                                                    '7], '
                                                                                                    '[8, '
                                                                                                    '9, '
                                                                                                    '10, '
                                                                                                    '11]]'}}}},
                                          'to_dataset-calls': [('/sub', ['inner'], 'None'),
                                                               ('/sub', [], 'None'),
                                                               ('/sub/inner', ['a', 'b'], 'None')],
                                          'chunk-calls': []},
                 'non-root-nested-x-y-unknown': {'type': 'DataTree',
                                                 'paths': ['/', '/sub', '/sub/inner'],
                                                 'datasets': {'/': {'type': 'Dataset',
                                                                    'sizes': '{}',
                                                                    'data_vars': [],
                                                                    'coords': [],
                                                                    'attrs': "{'chunked_with': "
                                                                             "'{}'}",
                                                                    'variables': {}},
                                                              '/sub': {'type': 'Dataset',
                                                                       'sizes': '{}',
                                                                       'data_vars': [],
                                                                       'coords': [],
                                                                       'attrs': "{'chunked_with': "
                                                                                "'{}'}",
                                                                       'variables': {}},
                                                              '/sub/inner': {'type': 'Dataset',
                                                                             'sizes': "{'x': 3, "
                                                                                      "'y': 4}",
                                                                             'data_vars': ['a',
                                                                                           'b'],
                                                                             'coords': [],
                                                                             'attrs': "{'chunked_with': "
                                                                                      '"{\'x\': 1, '
                                                                                      '\'y\': 2}"}',
                                                                             'variables': {'a': {'type': 'Variable',
                                                                                                 'dims': ('x',),
                                                                                                 'shape': (3,),
                                                                                                 'dtype': 'int8',
                                                                                                 'attrs': "{'a': "
                                                                                                          '1}',
                                                                                                 'encoding': '{}',
                                                                                                 'in-memory': True,
                                                                                                 'data-types': ['ndarray'],
                                                                                                 'values': '[1, '
                                                                                                           '2, '
                                                                                                           '3]'},
                                                                                           'b': {'type': 'Variable',
                                                                                                 'dims': ('x',
                                                                                                          'y'),
                                                                                                 'shape': (3,
                                                                                                           4),
                                                                                                 'dtype': 'int64',
                                                                                                 'attrs': "{'b': "
                                                                                                          "'abc'}",
                                                                                                 'encoding': '{}',
                                                                                                 'in-memory': True,
                                                                                                 'data-types': ['ndarray'],
                                                                                                 'values': '[[0, '
                                                                                                           '1, '
                                                                                                           '2, '
                                                                                                           '3], '
                                                                                                           '[4, '
                                                                                                           '5, '
                                                                                                           '6, '
                                                                                                           '7], '
                                                                                                           '[8, '
                                                                                                           '9, '
                                                                                                           '10, '
                                                                                                           '11]]'}}}},
                                                 'to_dataset-calls': [('/sub',
                                                                       ['inner'],
                                                                       "{'x': 1, 'y': 2, "
                                                                       "'unknown': 5}"),
                                                                      ('/sub',
                                                                       [],
                                                                       "{'x': 1, 'y': 2, "
                                                                       "'unknown': 5}"),
                                                                      ('/sub/inner',
                                                                       ['a', 'b'],
                                                                       "{'x': 1, 'y': 2, "
                                                                       "'unknown': 5}")],
                                                 'chunk-calls': [([], '{}', 'dict'),
                                                                 ([], '{}', 'dict'),
                                                                 (['a', 'b'],
                                                                  "{'x': 1, 'y': 2}",
                                                                  'dict')]},
                 'default-chunks': {'type': 'DataTree',
                                    'paths': ['/', '/imagery', '/meta', '/meta/deep'],
                                    'datasets': {'/': {'type': 'Dataset',
                                                       'sizes': "{'p': 2}",
                                                       'data_vars': ['v'],
                                                       'coords': [],
                                                       'attrs': "{'root': True}",
                                                       'variables': {'v': {'type': 'Variable',
                                                                           'dims': ('p',),
                                                                           'shape': (2,),
                                                                           'dtype': 'int64',
                                                                           'attrs': '{}',
                                                                           'encoding': '{}',
                                                                           'in-memory': True,
                                                                           'data-types': ['ndarray'],
                                                                           'values': '[0, 1]'}}},
                                                 '/imagery': {'type': 'Dataset',
                                                              'sizes': "{'rows': 4, 'cols': 6}",
                                                              'data_vars': ['data'],
                                                              'coords': ['rows', 't'],
                                                              'attrs': '{}',
                                                              'variables': {'data': {'type': 'Variable',
                                                                                     'dims': ('rows',
                                                                                              'cols'),
                                                                                     'shape': (4,
                                                                                               6),
                                                                                     'dtype': 'uint16',
                                                                                     'attrs': "{'units': "
                                                                                              "'dn'}",
                                                                                     'encoding': "{'preferred_chunksizes': "
                                                                                                 "{'rows': "
                                                                                                 '2, '
                                                                                                 "'cols': "
                                                                                                 '6}}',
                                                                                     'in-memory': False,
                                                                                     'data-types': ['LazilyIndexedArray',
                                                                                                    'LazilyIndexedWrapper',
                                                                                                    'lock=SerializableLock',
                                                                                                    'Array'],
                                                                                     'values': '[[0, '
                                                                                               '11, '
                                                                                               '22, '
                                                                                               '33, '
                                                                                               '44, '
                                                                                               '55], '
                                                                                               '[66, '
                                                                                               '77, '
                                                                                               '88, '
                                                                                               '99, '
                                                                                               '110, '
                                                                                               '121], '
                                                                                               '[132, '
                                                                                               '143, '
                                                                                               '154, '
                                                                                               '165, '
                                                                                               '176, '
                                                                                               '187], '
                                                                                               '[198, '
                                                                                               '209, '
                                                                                               '220, '
                                                                                               '231, '
                                                                                               '242, '
                                                                                               '253]]'},
                                                                            'rows': {'type': 'IndexVariable',
                                                                                     'dims': ('rows',),
                                                                                     'shape': (4,),
                                                                                     'dtype': 'float64',
                                                                                     'attrs': '{}',
                                                                                     'encoding': '{}',
                                                                                     'in-memory': True,
                                                                                     'data-types': ['PandasIndexingAdapter',
                                                                                                    'Index',
                                                                                                    'NumpyExtensionArray'],
                                                                                     'values': '[0.0, '
                                                                                               '2.5, '
                                                                                               '5.0, '
                                                                                               '7.5]'},
                                                                            't': {'type': 'Variable',
                                                                                  'dims': ('rows',),
                                                                                  'shape': (4,),
                                                                                  'dtype': 'int64',
                                                                                  'attrs': "{'long_name': "
                                                                                           "'time'}",
                                                                                  'encoding': '{}',
                                                                                  'in-memory': True,
                                                                                  'data-types': ['ndarray'],
                                                                                  'values': '[0, '
                                                                                            '1, 2, '
                                                                                            '3]'}}},
                                                 '/meta': {'type': 'Dataset',
                                                           'sizes': "{'q': 3}",
                                                           'data_vars': ['w'],
                                                           'coords': [],
                                                           'attrs': "{'level': 1}",
                                                           'variables': {'w': {'type': 'Variable',
                                                                               'dims': ('q',),
                                                                               'shape': (3,),
                                                                               'dtype': 'float64',
                                                                               'attrs': '{}',
                                                                               'encoding': '{}',
                                                                               'in-memory': True,
                                                                               'data-types': ['ndarray'],
                                                                               'values': '[0.0, '
                                                                                         '1.0, '
                                                                                         '2.0]'}}},
                                                 '/meta/deep': {'type': 'Dataset',
                                                                'sizes': "{'x': 3, 'y': 4}",
                                                                'data_vars': ['a', 'b'],
                                                                'coords': [],
                                                                'attrs': "{'level': 2}",
                                                                'variables': {'a': {'type': 'Variable',
                                                                                    'dims': ('x',),
                                                                                    'shape': (3,),
                                                                                    'dtype': 'int8',
                                                                                    'attrs': "{'a': "
                                                                                             '1}',
                                                                                    'encoding': '{}',
                                                                                    'in-memory': True,
                                                                                    'data-types': ['ndarray'],
                                                                                    'values': '[1, '
                                                                                              '2, '
                                                                                              '3]'},
                                                                              'b': {'type': 'Variable',
                                                                                    'dims': ('x',
                                                                                             'y'),
                                                                                    'shape': (3, 4),
                                                                                    'dtype': 'int64',
                                                                                    'attrs': "{'b': "
                                                                                             "'abc'}",
                                                                                    'encoding': '{}',
                                                                                    'in-memory': True,
                                                                                    'data-types': ['ndarray'],
                                                                                    'values': '[[0, '
                                                                                              '1, '
                                                                                              '2, '
                                                                                              '3], '
                                                                                              '[4, '
                                                                                              '5, '
                                                                                              '6, '
                                                                                              '7], '
                                                                                              '[8, '
                                                                                              '9, '
                                                                                              '10, '
                                                                                              '11]]'}}}}},
                 'positional-chunks': {'type': 'DataTree',
                                       'paths': ['/'],
                                       'datasets': {'/': {'type': 'Dataset',
                                                          'sizes': "{'x': 3, 'y': 4}",
                                                          'data_vars': ['a', 'b'],
                                                          'coords': [],
                                                          'attrs': '{}',
                                                          'variables': {'a': {'type': 'Variable',
                                                                              'dims': ('x',),
                                                                              'shape': (3,),
                                                                              'dtype': 'int8',
                                                                              'attrs': "{'a': 1}",
                                                                              'encoding': '{}',
                                                                              'in-memory': True,
                                                                              'data-types': ['ndarray'],
                                                                              'values': '[1, 2, '
                                                                                        '3]'},
                                                                        'b': {'type': 'Variable',
                                                                              'dims': ('x', 'y'),
                                                                              'shape': (3, 4),
                                                                              'dtype': 'int64',
                                                                              'attrs': "{'b': "
                                                                                       "'abc'}",
                                                                              'encoding': '{}',
                                                                              'in-memory': True,
                                                                              'data-types': ['ndarray'],
                                                                              'values': '[[0, 1, '
                                                                                        '2, 3], '
                                                                                        '[4, 5, 6, '
                                                                                        '7], [8, '
                                                                                        '9, 10, '
                                                                                        '11]]'}}}}},
                 'not-a-group': {'raises': ["AttributeError: 'dict' object has no attribute "
                                            "'variables'"]}},
 'open_alos2': {'tree': {'type': 'DataTree',
                         'paths': ['/', '/imagery', '/meta', '/meta/deep'],
                         'datasets': {'/': {'type': 'Dataset',
                                            'sizes': "{'p': 2}",
                                            'data_vars': ['v'],
                                            'coords': [],
                                            'attrs': "{'root': True}",
                                            'variables': {'v': {'type': 'Variable',
                                                                'dims': ('p',),
                                                                'shape': (2,),
                                                                'dtype': 'int64',
                                                                'attrs': '{}',
                                                                'encoding': '{}',
                                                                'in-memory': True,
                                                                'data-types': ['ndarray'],
                                                                'values': '[0, 1]'}}},
                                      '/imagery': {'type': 'Dataset',
                                                   'sizes': "{'rows': 4, 'cols': 6}",
                                                   'data_vars': ['data'],
                                                   'coords': ['rows', 't'],
                                                   'attrs': '{}',
                                                   'variables': {'data': {'type': 'Variable',
                                                                          'dims': ('rows', 'cols'),
                                                                          'shape': (4, 6),
                                                                          'dtype': 'uint16',
                                                                          'attrs': "{'units': "
                                                                                   "'dn'}",
                                                                          'encoding': "{'preferred_chunksizes': "
                                                                                      "{'rows': 2, "
                                                                                      "'cols': 6}}",
                                                                          'in-memory': False,
                                                                          'data-types': ['LazilyIndexedArray',
                                                                                         'LazilyIndexedWrapper',
                                                                                         'lock=SerializableLock',
                                                                                         'Array'],
                                                                          'values': '[[0, 11, 22, '
                                                                                    '33, 44, 55], '
                                                                                    '[66, 77, 88, '
                                                                                    '99, 110, '
                                                                                    '121], [132, '
                                                                                    '143, 154, '
                                                                                    '165, 176, '
                                                                                    '187], [198, '
                                                                                    '209, 220, '
                                                                                    '231, 242, '
                                                                                    '253]]'},
                                                                 'rows': {'type': 'IndexVariable',
                                                                          'dims': ('rows',),
                                                                          'shape': (4,),
                                                                          'dtype': 'float64',
                                                                          'attrs': '{}',
                                                                          'encoding': '{}',
                                                                          'in-memory': True,
                                                                          'data-types': ['PandasIndexingAdapter',
                                                                                         'Index',
                                                                                         'NumpyExtensionArray'],
                                                                          'values': '[0.0, 2.5, '
                                                                                    '5.0, 7.5]'},
                                                                 't': {'type': 'Variable',
                                                                       'dims': ('rows',),
                                                                       'shape': (4,),
                                                                       'dtype': 'int64',
                                                                       'attrs': "{'long_name': "
                                                                                "'time'}",
                                                                       'encoding': '{}',
                                                                       'in-memory': True,
                                                                       'data-types': ['ndarray'],
                                                                       'values': '[0, 1, 2, 3]'}}},
                                      '/meta': {'type': 'Dataset',
                                                'sizes': "{'q': 3}",
                                                'data_vars': ['w'],
                                                'coords': [],
                                                'attrs': "{'level': 1}",
                                                'variables': {'w': {'type': 'Variable',
                                                                    'dims': ('q',),
                                                                    'shape': (3,),
                                                                    'dtype': 'float64',
                                                                    'attrs': '{}',
                                                                    'encoding': '{}',
                                                                    'in-memory': True,
                                                                    'data-types': ['ndarray'],
                                                                    'values': '[0.0, 1.0, 2.0]'}}},
                                      '/meta/deep': {'type': 'Dataset',
                                                     'sizes': "{'x': 3, 'y': 4}",
                                                     'data_vars': ['a', 'b'],
                                                     'coords': [],
                                                     'attrs': "{'level': 2}",
                                                     'variables': {'a': {'type': 'Variable',
                                                                         'dims': ('x',),
                                                                         'shape': (3,),
                                                                         'dtype': 'int8',
                                                                         'attrs': "{'a': 1}",
                                                                         'encoding': '{}',
                                                                         'in-memory': True,
                                                                         'data-types': ['ndarray'],
                                                                         'values': '[1, 2, 3]'},
                                                                   'b': {'type': 'Variable',
                                                                         'dims': ('x', 'y'),
                                                                         'shape': (3, 4),
                                                                         'dtype': 'int64',
                                                                         'attrs': "{'b': 'abc'}",
                                                                         'encoding': '{}',
                                                                         'in-memory': True,
                                                                         'data-types': ['ndarray'],
                                                                         'values': '[[0, 1, 2, 3], '
                                                                                   '[4, 5, 6, 7], '
                                                                                   '[8, 9, 10, '
                                                                                   '11]]'}}}}},
                'default': ['/', '/imagery', '/meta', '/meta/deep'],
                'calls': "[('some/path', {'records_per_chunk': 3}), ('other', {})]"}}
# END EXPECTED


def test_equiv():
    actual = collect()
    assert list(actual) == list(EXPECTED)
    for section, observations in actual.items():
        assert list(observations) == list(EXPECTED[section]), section
        for name, observation in observations.items():
            expected = EXPECTED[section][name]
            assert observation == expected, (section, name, observation, expected)


def test_names_still_importable():
    for name in (
        "LazilyIndexedWrapper", "extract_encoding", "to_variable", "decode_coords", "to_dataset",
        "to_datatree", "open_alos2", "Array", "io", "indexing", "SerializableLock", "BackendArray",
        "np", "xr", "numpy",
    ):  # fmt: skip
        assert hasattr(cx, name), name


if __name__ == "__main__":
    if "--record" in sys.argv:
        pprint.pprint(collect(), width=100, sort_dicts=False)
    else:
        test_equiv()
        test_names_still_importable()
        n = sum(len(section) for section in EXPECTED.values())
        print(f"OK: {n} observations identical to the recorded behaviour")
