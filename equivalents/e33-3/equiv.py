"""Equivalence check for refactoring 3 (ceos_alos2/sar_image/caching/decoders.py).

Run as
    cd /tmp/wt5/e33 && PYTHONPATH=/tmp/wt5/e33 /venv/bin/python _eq/3/equiv.py
(or through pytest). The expected values in ``expected.json`` next to this file
were recorded from the UNCHANGED code with ``EQ_RECORD=1``.
"""

import copy
import json
import os
import pathlib
import warnings

import numpy as np

from ceos_alos2.array import Array
from ceos_alos2.hierarchy import Group, Variable
from ceos_alos2.sar_image import caching
from ceos_alos2.sar_image.caching import decoders

HERE = pathlib.Path(__file__).resolve().parent
EXPECTED = HERE / "expected.json"


def canon(obj):
    if isinstance(obj, Group):
        members = ", ".join(f"{name!r}: {canon(item)}" for name, item in obj.data.items())
        return (
            f"{type(obj).__name__}(path={obj.path!r}, url={obj.url!r}, attrs={canon(obj.attrs)},"
            f" data={type(obj.data).__name__}{{{members}}})"
        )
    if isinstance(obj, Variable):
        return f"Variable(dims={canon(obj.dims)}, data={canon(obj.data)}, attrs={canon(obj.attrs)})"
    if isinstance(obj, Array):
        fs = obj.fs
        return (
            f"Array(fs={type(fs).__name__}(path={fs.path!r}, fs={type(fs.fs).__name__}),"
            f" url={obj.url!r}, byte_ranges={canon(obj.byte_ranges)}, shape={canon(obj.shape)},"
            f" dtype={canon(obj.dtype)}, type_code={obj.type_code!r},"
            f" records_per_chunk={canon(obj.records_per_chunk)},"
            f" chunk_offsets={obj.chunk_offsets!r})"
        )
    if isinstance(obj, np.ndarray):
        return f"ndarray<{obj.dtype}, {obj.shape}>{obj.tolist()!r}"
    if isinstance(obj, dict):
        items = ", ".join(f"{k!r}: {canon(v)}" for k, v in obj.items())
        return f"{type(obj).__name__}{{{items}}}"
    if isinstance(obj, (list, tuple)):
        return f"{type(obj).__name__}[{', '.join(canon(v) for v in obj)}]"
    return f"{type(obj).__name__}({obj!r})"


def run(func, *args, **kwargs):
    try:
        return "OK " + canon(func(*args, **kwargs))
    except Exception as e:  # noqa: BLE001
        cause = e.__cause__
        suffix = f" <- {type(cause).__name__}" if cause is not None else ""
        return f"EXC {type(e).__name__}: {e}{suffix}"


def without(mapping, *keys):
    return {k: v for k, v in mapping.items() if k not in keys}


def plain(dtype, data, encoding=None):
    return {"__type__": "array", "dtype": dtype, "data": data, "encoding": encoding or {}}


def datetime_cases():
    ref = "1997-05-27T00:00:00.000"
    base = plain("datetime64[s]", [0, 120000], {"units": "ms", "reference": ref})
    return {
        "dt-ms-to-s": base,
        "dt-ns": plain("datetime64[ns]", [0, 1500000000],
                       {"units": "ns", "reference": "2020-01-01T00:00:00.000000000"}),
        "dt-D": plain("datetime64[D]", [0, 2, -364], {"units": "D", "reference": "2019-12-31"}),
        "dt-10s": plain("datetime64[10s]", [0, 6], {"units": "10s", "reference": "2020-01-01T00:00:00"}),
        "dt-25us": plain("datetime64[25us]", [0, 3],
                         {"units": "25us", "reference": "2020-01-01T00:00:00.000025"}),
        "dt-dropped-multiplier": plain("datetime64[10s]", [0, 6],
                                       {"units": "s", "reference": "2020-01-01T00:00:00"}),
        "dt-nat-offset": plain("datetime64[ms]", [0, -9223372036854775808],
                               {"units": "ms", "reference": "2020-01-01T00:00:00.000"}),
        "dt-nat-reference": plain("datetime64[ms]", [0, 5], {"units": "ms", "reference": "NaT"}),
        "dt-empty": plain("datetime64[s]", [], {"units": "s", "reference": "2020-01-01T00:00:00"}),
        "dt-2d": plain("datetime64[D]", [[0, 1], [2, 4]], {"units": "D", "reference": "2020-01-01"}),
        "dt-scalar-data": plain("datetime64[D]", 3, {"units": "D", "reference": "2020-01-01"}),
        "dt-float-data": plain("datetime64[s]", [0.5], {"units": "s", "reference": "2020-01-01T00:00:00"}),
        "dt-bad-units": plain("datetime64[s]", [0], {"units": "parsec", "reference": "2020-01-01T00:00:00"}),
        "dt-empty-units": plain("datetime64[s]", [0], {"units": "", "reference": "2020-01-01T00:00:00"}),
        "dt-int-units": plain("datetime64[s]", [0], {"units": 5, "reference": "2020-01-01T00:00:00"}),
        "dt-none-units": plain("datetime64[s]", [0], {"units": None, "reference": "2020-01-01T00:00:00"}),
        "dt-tuple-units": plain("datetime64[s]", [0], {"units": ("s",), "reference": "2020-01-01T00:00:00"}),
        "dt-tuple2-units": plain("datetime64[s]", [0], {"units": ("s", 1), "reference": "2020-01-01T00:00:00"}),
        "dt-dict-units": plain("datetime64[s]", [0], {"units": {"a": 1}, "reference": "2020-01-01T00:00:00"}),
        "dt-bad-reference": plain("datetime64[s]", [0], {"units": "s", "reference": "yesterday"}),
        "dt-no-units": plain("datetime64[s]", [0], {"reference": "2020-01-01T00:00:00"}),
        "dt-no-reference": plain("datetime64[s]", [0], {"units": "s"}),
        "dt-no-reference-no-data": without(plain("datetime64[s]", [0], {"units": "s"}), "data"),
        "dt-bad-reference-no-data": without(
            plain("datetime64[s]", [0], {"units": "s", "reference": "yesterday"}), "data"
        ),
        "dt-no-data-no-units": without(
            plain("datetime64[s]", [0], {"reference": "2020-01-01T00:00:00"}), "data"
        ),
        "dt-no-encoding": without(base, "encoding"),
        "dt-no-data": without(base, "data"),
        "dt-encoding-none": {**base, "encoding": None},
    }


def backend(**overrides):
    encoded = {
        "__type__": "backend_array",
        "root": "memory:///path/to",
        "url": "file",
        "shape": (4, 3),
        "dtype": "int16",
        "byte_ranges": [(5, 10), (15, 20), (25, 30), (35, 40)],
        "type_code": "IU2",
    }
    encoded.update(overrides)
    return encoded


def array_cases():
    cases = dict(datetime_cases())
    cases.update(
        {
            "int8": plain("int8", [1, 2]),
            "float-2d": plain("float64", [[1.5, 2.5], [3.0, 4.0]]),
            "bool": plain("bool", [True, False]),
            "str": plain("<U2", ["a", "bc"]),
            "bytes-from-str": plain("|S2", ["a", "bc"]),
            "complex-from-real": plain("complex64", [1, 2]),
            "object": plain("object", [None, "a", 1]),
            "empty": plain("float32", []),
            "scalar": plain("int64", 5),
            "overflow": plain("int8", [300]),
            "td-s": plain("timedelta64[s]", [1, 2], {"units": "s"}),
            "td-10s": plain("timedelta64[10s]", [1, 2], {"units": "s"}),
            "td-no-encoding": without(plain("timedelta64[ms]", [1, 2]), "encoding"),
            "bad-dtype": plain("int7", [1]),
            "dtype-none": plain(None, [1.5]),
            "dtype-list": plain([("a", "i4")], [(1,)]),
            "no-dtype": without(plain("int8", [1]), "dtype"),
            "no-data": without(plain("int8", [1]), "data"),
            "datetime-generic": plain("datetime64", [0], {"units": "s", "reference": "2020-01-01"}),
            "backend": backend(),
            "backend-complex": backend(dtype="complex64", type_code="C*8", url="dir/img"),
            "backend-list-shape": backend(shape=[4, 3], byte_ranges=[[5, 10], [15, 20], [25, 30], [35, 40]]),
            "backend-empty": backend(shape=(0, 3), byte_ranges=[]),
            "backend-file-root": backend(root="file:///tmp/some/dir"),
            "backend-plain-root": backend(root="/tmp/some/dir"),
            "backend-unknown-protocol": backend(root="nope://x"),
            "backend-extra-keys": backend(extra=1, encoding={"units": "s"}),
            "backend-no-type": without(backend(), "__type__"),
            "backend-other-type": backend(__type__="something"),
            "backend-unhashable-type": backend(__type__=["array"]),
            "empty-dict": {},
            "not-a-dict": [1, 2],
            "none": None,
        }
    )
    for key in ["root", "url", "shape", "dtype", "byte_ranges", "type_code"]:
        cases[f"backend-no-{key}"] = without(backend(), key)
    cases["backend-no-type_code-no-url"] = without(backend(), "type_code", "url")
    cases["backend-no-shape-no-byte_ranges"] = without(backend(), "shape", "byte_ranges")
    cases["backend-no-dtype-no-url-bad-root"] = without(backend(root="nope://x"), "dtype", "url")
    cases["backend-bad-byte_ranges"] = backend(byte_ranges=[5, 10])
    cases["backend-none-byte_ranges"] = backend(byte_ranges=None)
    return cases


RPCS = [None, 1, 2, 3, -1, 100, "auto", "1KiB", "12B", "bogus", 2.5]


def variable_cases():
    arrays = array_cases()
    good = {"__type__": "variable", "dims": ["x"], "data": arrays["int8"], "attrs": {"u": "m"}}
    return {
        "var-int": good,
        "var-str-dims": {**good, "dims": "x"},
        "var-tuple-dims": {**good, "dims": ("x",)},
        "var-dt": {"__type__": "variable", "dims": ["t"], "data": arrays["dt-10s"], "attrs": {}},
        "var-backend": {
            "__type__": "variable",
            "dims": ["rows", "cols"],
            "data": arrays["backend"],
            "attrs": {"nested": {"t": (1, (2, 3))}},
        },
        "var-no-dims": without(good, "dims"),
        "var-no-attrs": without(good, "attrs"),
        "var-no-data": without(good, "data"),
        "var-no-data-no-dims": without(good, "data", "dims"),
        "var-bad-data-no-dims": {**without(good, "dims"), "data": arrays["bad-dtype"]},
        "var-no-type": without(good, "__type__"),
    }


def group_cases():
    variables = variable_cases()
    empty = {"__type__": "group", "url": None, "data": {}, "path": "/", "attrs": {}}
    flat = {
        "__type__": "group",
        "url": "s3://bucket/x",
        "data": {"a": variables["var-int"], "t": variables["var-dt"]},
        "path": "/",
        "attrs": {"k": 1},
    }
    nested = {
        "__type__": "group",
        "url": "memory://root",
        "data": {
            "v": variables["var-backend"],
            "sub": {
                "__type__": "group",
                "url": None,
                "data": {
                    "w": variables["var-int"],
                    "deep": {
                        "__type__": "group",
                        "url": "file:///d",
                        "data": {"z": variables["var-backend"]},
                        "path": "somewhere/else",
                        "attrs": {"d": [1, (2,)]},
                    },
                    "none": {"__type__": "group", "url": None, "data": {}, "path": None, "attrs": {}},
                },
                "path": "/sub",
                "attrs": {"s": "t"},
            },
            "last": variables["var-int"],
        },
        "path": None,
        "attrs": {"coords": ("x", "y")},
    }
    return {
        "group-empty": empty,
        "group-flat": flat,
        "group-nested": nested,
        "group-path-none": {**empty, "path": None},
        "group-relative-path": {**flat, "path": "rel"},
        "group-passthrough-members": {
            **empty,
            "data": {"n": 1, "s": "abc", "d": {"x": 1}, "unknown": {"__type__": "other"}, "none": None},
        },
        "group-array-member": {**empty, "data": {"arr": plain("int8", [1])}},
        "group-list-data": {**empty, "data": [variables["var-int"]]},
        "group-none-data": {**empty, "data": None},
        "group-member-not-dict": {**empty, "data": {"a": [1, 2]}},
        "group-member-unhashable-type": {**empty, "data": {"a": {"__type__": ["group"]}}},
        "group-member-dict-type": {**empty, "data": {"a": {"__type__": {"x": 1}}}},
        "group-broken-member": {**empty, "data": {"ok": variables["var-int"], "bad": variables["var-no-data"]}},
        "group-broken-nested": {
            **empty,
            "data": {"g": {"__type__": "group", "url": None, "data": {"bad": {"__type__": "variable"}},
                           "attrs": {}}},
        },
        "group-no-data": without(flat, "data"),
        "group-no-path": without(flat, "path"),
        "group-no-url": without(flat, "url"),
        "group-no-attrs": without(flat, "attrs"),
        "group-no-data-no-path": without(flat, "data", "path"),
        "group-no-path-no-url-no-attrs": without(flat, "path", "url", "attrs"),
    }


def hierarchy_cases():
    cases = {}
    cases.update(variable_cases())
    cases.update(group_cases())
    cases.update(
        {
            "h-array": plain("int8", [1]),
            "h-backend": backend(),
            "h-empty-dict": {},
            "h-type-none": {"__type__": None, "x": 1},
            "h-type-int": {"__type__": 1},
            "h-type-tuple": {"__type__": ("group",)},
            "h-type-list": {"__type__": ["group"]},
            "h-type-dict": {"__type__": {}},
            "h-type-other": {"__type__": "tuple", "data": [1]},
            "h-list": [1, 2],
            "h-str": "group",
            "h-none": None,
            "h-int": 3,
        }
    )
    return cases


def to_json(obj):
    return json.dumps(caching.encoders.preprocess(obj))


def text_cases():
    cases = {name: to_json(value) for name, value in {**group_cases(), **variable_cases()}.items()}
    cases.update(
        {
            "text-empty": "",
            "text-truncated": to_json(group_cases()["group-nested"])[:200],
            "text-not-json": "not json",
            "text-number": "5",
            "text-null": "null",
            "text-list": "[1, {\"__type__\": \"tuple\", \"data\": [1, 2]}]",
            "text-tuple-toplevel": "{\"__type__\": \"tuple\", \"data\": [1, [2], {\"__type__\": \"tuple\", \"data\": []}]}",
            "text-tuple-no-data": "{\"__type__\": \"tuple\"}",
            "text-tuple-scalar-data": "{\"__type__\": \"tuple\", \"data\": 5}",
            "text-type-list": "{\"__type__\": [\"group\"]}",
            "text-nan": "{\"a\": NaN}",
            "text-trailing": "{} {}",
        }
    )
    return cases


def compute():
    warnings.simplefilter("ignore")
    out = {}

    for name, value in datetime_cases().items():
        out[f"decode_datetime/{name}"] = run(decoders.decode_datetime, copy.deepcopy(value))

    for name, value in array_cases().items():
        rpcs = RPCS if name.startswith("backend") else [None, 2]
        for rpc in rpcs:
            out[f"decode_array/{name}/rpc={rpc!r}"] = run(
                decoders.decode_array, copy.deepcopy(value), rpc
            )
        out[f"decode_array-kw/{name}"] = run(
            decoders.decode_array, encoded=copy.deepcopy(value), records_per_chunk=2
        )

    for name, value in variable_cases().items():
        for rpc in [None, 2, "auto"]:
            out[f"decode_variable/{name}/rpc={rpc!r}"] = run(
                decoders.decode_variable, copy.deepcopy(value), rpc
            )

    for name, value in group_cases().items():
        for rpc in [None, 2]:
            out[f"decode_group/{name}/rpc={rpc!r}"] = run(
                decoders.decode_group, copy.deepcopy(value), rpc
            )
    out["decode_group/variable"] = run(decoders.decode_group, variable_cases()["var-int"], 2)
    out["decode_variable/group"] = run(decoders.decode_variable, group_cases()["group-flat"], 2)

    for name, value in hierarchy_cases().items():
        for rpc in [None, 3, "1KiB"]:
            out[f"decode_hierarchy/{name}/rpc={rpc!r}"] = run(
                decoders.decode_hierarchy, copy.deepcopy(value), rpc
            )
        out[f"decode_hierarchy-kw/{name}"] = run(
            decoders.decode_hierarchy, encoded=copy.deepcopy(value), records_per_chunk=1
        )

    for name, text in text_cases().items():
        for rpc in [None, 2]:
            out[f"decode/{name}/rpc={rpc!r}"] = run(caching.decode, text, rpc)

    for name, value in {
        "tuple": {"__type__": "tuple", "data": [1, [2]]},
        "tuple-of-tuple": {"__type__": "tuple", "data": (1, 2)},
        "other": {"__type__": "array", "data": [1]},
        "no-type": {"data": [1]},
        "empty": {},
        "tuple-no-data": {"__type__": "tuple"},
        "tuple-str-data": {"__type__": "tuple", "data": "ab"},
        "list": [1],
    }.items():
        out[f"postprocess/{name}"] = run(decoders.postprocess, value)

    # passthrough objects are returned as they are, inputs are left untouched
    marker = {"anything": 1}
    out["identity/decode_hierarchy"] = str(decoders.decode_hierarchy(marker, 2) is marker)
    encoded = group_cases()["group-nested"]
    before = copy.deepcopy(encoded)
    decoded = decoders.decode_hierarchy(encoded, 2)
    out["identity/input-unchanged"] = str(canon(before) == canon(encoded))
    out["identity/attrs-shared"] = str(decoded.attrs is encoded["attrs"])
    out["identity/var-attrs-shared"] = str(decoded["last"].attrs is encoded["data"]["last"]["attrs"])
    out["identity/dims-shared"] = str(decoded["last"].dims is encoded["data"]["last"]["dims"])
    out["identity/member-order"] = repr((list(decoded), list(decoded["sub"])))

    # round trips through the encoders
    roundtrip = caching.decode(caching.encode(decoded), 3)
    out["roundtrip"] = canon(roundtrip)
    return out


def test_equivalence():
    actual = compute()
    if os.environ.get("EQ_RECORD"):
        EXPECTED.write_text(json.dumps(actual, indent=1, sort_keys=True))
        print(f"recorded {len(actual)} results")
        return
    expected = json.loads(EXPECTED.read_text())
    assert sorted(actual) == sorted(expected)
    mismatches = {k: (expected[k], actual[k]) for k in expected if expected[k] != actual[k]}
    assert not mismatches, mismatches
    print(f"{len(actual)} results identical")


if __name__ == "__main__":
    test_equivalence()
