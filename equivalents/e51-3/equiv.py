"""equivalence check for refactoring 3: ``transform_line_metadata`` and ``transform_metadata``
of ``ceos_alos2.sar_image.metadata``.

Every case calls the public function, describes the result (types, orders, dtypes) or the
exception, checks that the inputs were not modified, and compares with a recording taken
from the unchanged code.  The order in which the module-level helpers are called (they are
looked up in the module at call time, so they can be replaced) is recorded as well.

usage: PYTHONPATH=<worktree> python equiv.py      (or: pytest equiv.py)
"""
import copy
import datetime as dt
import io as _io

from ceos_alos2.sar_image import io as sar_io
from ceos_alos2.sar_image import metadata

# --------------------------------------------------------------------------
# generic harness: canonical description of results, recording, comparison
# --------------------------------------------------------------------------
import datetime as _dt
import math as _math
import os
import pprint
import sys
import traceback

import numpy as np

from ceos_alos2.array import Array
from ceos_alos2.hierarchy import Group, Variable

_PLAIN = (int, bool, str, bytes, type(None))


def describe(obj):
    """convert a result to nested literals, keeping types and orders visible"""
    t = type(obj)
    if t in _PLAIN:
        return obj
    if t is float:
        if _math.isfinite(obj):
            return obj
        return ("float", repr(obj))
    if t is complex:
        return ("complex", repr(obj))
    if t is tuple:
        return tuple(describe(v) for v in obj)
    if t is list:
        return [describe(v) for v in obj]
    if t is dict:
        return ("dict", [(describe(k), describe(v)) for k, v in obj.items()])
    if t in (set, frozenset):
        return (t.__name__, sorted((describe(v) for v in obj), key=repr))
    if t is _dt.datetime:
        return ("datetime", obj.isoformat())
    if isinstance(obj, np.ndarray):
        return ("ndarray", str(obj.dtype), obj.shape, [str(v) for v in obj.reshape(-1)])
    if isinstance(obj, np.generic):
        return ("npscalar", str(obj.dtype), str(obj))
    if isinstance(obj, np.dtype):
        return ("npdtype", str(obj))
    if t is Array:
        fs = obj.fs
        return (
            "Array",
            ("fs", type(fs).__name__, getattr(fs, "path", None), type(getattr(fs, "fs", None)).__name__),
            ("url", obj.url),
            ("byte_ranges", describe(obj.byte_ranges)),
            ("shape", describe(obj.shape)),
            ("dtype", describe(obj.dtype)),
            ("type_code", obj.type_code),
            ("records_per_chunk", describe(obj.records_per_chunk)),
            ("chunk_offsets", describe(obj.chunk_offsets)),
        )
    if t is Variable:
        return ("Variable", describe(obj.dims), describe(obj.data), describe(obj.attrs))
    if t is Group:
        return ("Group", obj.path, obj.url, describe(obj.data), describe(obj.attrs))
    # subclasses of the builtin types (construct's enum integers / strings, containers)
    for base in (bool, int, float, str, bytes, tuple, list, dict):
        if isinstance(obj, base):
            if base is dict:
                inner = ("dict", [(describe(k), describe(v)) for k, v in obj.items()])
            elif base in (tuple, list):
                inner = base(describe(v) for v in obj)
            else:
                inner = base(obj)
            return ("subclass", t.__name__, inner)
    if hasattr(obj, "__dataclass_fields__"):
        return (
            "dataclass",
            t.__name__,
            [(name, describe(getattr(obj, name))) for name in obj.__dataclass_fields__],
        )
    return ("object", t.__module__, t.__name__, repr(obj))


def outcome(func, *args, **kwargs):
    """call and describe either the result or the exception"""
    try:
        result = func(*args, **kwargs)
    except BaseException as e:  # noqa: B902
        return ("raised", type(e).__module__, type(e).__name__, str(e))
    return ("returned", describe(result))


_BEGIN = "# === BEGIN RECORDED (from the unchanged code; EQUIV_RECORD=1 regenerates) ==="
_END = "# === END RECORDED ==="


def _record(results):
    path = os.path.abspath(__file__)
    with open(path) as f:
        source = f.read()
    head, rest = source.split("\n" + _BEGIN + "\n", 1)
    _, tail = rest.split("\n" + _END + "\n", 1)
    body = "EXPECTED = " + pprint.pformat(results, width=160, compact=True, sort_dicts=False)
    with open(path, "w") as f:
        f.write(head + "\n" + _BEGIN + "\n" + body + "\n" + _END + "\n" + tail)
    print(f"recorded {len(results)} cases")
    return 0


def main():
    import ceos_alos2

    print("ceos_alos2 from", ceos_alos2.__file__)
    try:
        results = compute()
    except BaseException:
        traceback.print_exc()
        print("FAILED: the case driver itself crashed")
        return 1

    if os.environ.get("EQUIV_RECORD") == "1":
        return _record(results)

    failures = []
    if list(results) != list(EXPECTED):
        failures.append(("<case names>", list(EXPECTED), list(results)))
    for name, actual in results.items():
        expected = EXPECTED.get(name)
        if actual != expected:
            failures.append((name, expected, actual))

    for name, expected, actual in failures:
        print(f"MISMATCH in {name}:")
        print("  expected:", pprint.pformat(expected, width=110)[:2000])
        print("  actual:  ", pprint.pformat(actual, width=110)[:2000])
    print(f"{len(results) - len(failures)} of {len(results)} cases identical to the recording")
    return 1 if failures else 0


def test_equiv():
    assert main() == 0
# --------------------------------------------------------------------------
# synthetic ALOS-2 image files (no real products are available)
# --------------------------------------------------------------------------
import struct as _struct

_DESCRIPTOR_FIELDS = [
    # (name, width); all ASCII, integers right-aligned, strings left-aligned
    ("ascii_ebcdic_flag", 2), ("blanks1", 2), ("format_control_document_id", 12),
    ("format_control_document_revision_level", 2), ("file_design_descriptor_revision_letter", 2),
    ("software_release_and_revision_number", 12), ("file_number", 4), ("file_id", 16),
    ("record_sequence_and_location_type_flag", 4), ("location_sequence_number", 8),
    ("field_length_of_sequence_number", 4), ("record_code_and_location_type_flag", 4),
    ("record_code_location", 8), ("record_code_field_length", 4),
    ("record_length_and_location_type_flag", 4), ("record_length_location", 8),
    ("record_length_field_length", 4), ("reserved1", 1), ("reserved2", 1), ("reserved3", 1),
    ("reserved4", 1), ("blanks6", 64), ("number_of_sar_data_records", 6),
    ("sar_data_record_length", 6), ("reserved5", 24),
    ("bit_length_per_sample", 4), ("number_of_samples_per_data_group", 4),
    ("number_of_bytes_per_data_group", 4),
    ("justification_and_order_of_samples_within_data_group", 4),
    ("number_of_sar_channels", 4), ("number_of_lines_per_dataset", 8),
    ("number_of_left_border_pixels_per_line", 4), ("number_of_data_groups_per_line", 8),
    ("number_of_right_border_pixels_per_line", 4), ("number_of_top_border_lines", 4),
    ("number_of_bottom_border_lines", 4), ("interleaving_id", 4),
    ("number_of_physical_records_per_line", 2),
    ("number_of_physical_records_per_multichannel_line_in_this_file", 2),
    ("number_of_bytes_of_prefix_data_per_record", 4),
    ("number_of_bytes_of_sar_data_per_record", 8),
    ("number_of_bytes_of_suffix_data_per_record", 4), ("prefix_suffix_repeat_flag", 4),
    ("sample_data_line_number_locator", 8), ("sar_channel_number_locator", 8),
    ("time_of_sar_data_line_locator", 8), ("left_fill_count_locator", 8),
    ("right_fill_count_locator", 8), ("pad_pixels_present_indicator", 4), ("blanks_a", 28),
    ("sar_data_line_quality_code_locator", 8), ("calibration_information_field_locator", 8),
    ("gain_values_field_locator", 8), ("bias_values_field_locator", 8),
    ("sar_data_format_type_indicator", 28), ("sar_data_format_type_code", 4),
    ("number_of_left_fill_bits_within_pixel", 4), ("number_of_right_fill_bits_within_pixel", 4),
    ("maximum_data_range_of_pixel", 8), ("number_of_burst_data", 4),
    ("number_of_lines_per_burst", 4), ("number_of_overlap_lines_with_adjacent_bursts", 4),
    ("blanks_b", 260),
]
assert 12 + sum(width for _, width in _DESCRIPTOR_FIELDS) == 720


def make_preamble(sequence_number, record_type, record_length):
    return _struct.pack(">IBBBBI", sequence_number, 50, record_type, 18, 20, record_length)


def make_file_descriptor(**values):
    defaults = {
        "ascii_ebcdic_flag": "A", "format_control_document_id": "CEOS-SAR", 
        "format_control_document_revision_level": "A", "file_design_descriptor_revision_letter": "A",
        "software_release_and_revision_number": "002.011", "file_number": 3,
        "file_id": "BSAR IMOP", "record_sequence_and_location_type_flag": "FSEQ",
        "location_sequence_number": 1, "field_length_of_sequence_number": 4,
        "record_code_and_location_type_flag": "FTYP", "record_code_location": 5,
        "record_code_field_length": 4, "record_length_and_location_type_flag": "FLGT",
        "record_length_location": 9, "record_length_field_length": 4,
        "bit_length_per_sample": 16, "number_of_samples_per_data_group": 1,
        "number_of_bytes_per_data_group": 2, "number_of_sar_channels": 1,
        "interleaving_id": "BSQ", "number_of_physical_records_per_line": 1,
        "number_of_physical_records_per_multichannel_line_in_this_file": 1,
        "sar_data_format_type_indicator": "UNSIGNED INTEGER*2", "sar_data_format_type_code": "IU2",
        "number_of_left_fill_bits_within_pixel": 0, "number_of_right_fill_bits_within_pixel": 0,
    }
    merged = defaults | values
    unknown = set(merged) - {name for name, _ in _DESCRIPTOR_FIELDS}
    assert not unknown, unknown

    parts = [make_preamble(1, 192, 720)]
    for name, width in _DESCRIPTOR_FIELDS:
        value = merged.get(name, "")
        text = f"{value:>{width}d}" if isinstance(value, int) else f"{value:<{width}s}"
        assert len(text) == width, (name, text)
        parts.append(text.encode("ascii"))
    content = b"".join(parts)
    assert len(content) == 720
    return content


def make_data_record(sequence_number, record_type, prefix_size, pixels, *, year=2020, seed=0):
    """a signal (type 10, 544 bytes prefix) or processed (type 11, 192 bytes prefix) data record

    The prefix words are small deterministic numbers, then the date fields are made valid.
    """
    record_length = prefix_size + len(pixels)
    n_words = (prefix_size - 12) // 4
    words = [(sequence_number * 13 + index * 7 + seed) % 97 for index in range(n_words)]
    words[0] = sequence_number  # sar_image_data_line_number
    words[1] = 1  # sar_image_data_record_index
    words[6] = year
    words[7] = 1 + (sequence_number * 37 + seed) % 365  # day of year
    words[8] = (sequence_number * 1234567 + seed) % 86400000  # milliseconds of the day
    prefix = make_preamble(sequence_number, record_type, record_length) + _struct.pack(
        f">{n_words}I", *words
    )
    assert len(prefix) == prefix_size
    return prefix + pixels


def make_pixels(line, n_pixels, type_code):
    if type_code == "IU2":
        return _struct.pack(f">{n_pixels}H", *[(line * 100 + col) % 65536 for col in range(n_pixels)])
    elif type_code == "C*8":
        values = []
        for col in range(n_pixels):
            values.extend([line + col / 4, -line + col / 8])
        return _struct.pack(f">{2 * n_pixels}f", *values)
    raise AssertionError(type_code)


def make_image(n_lines, n_pixels, *, record_type=10, type_code="IU2", seed=0, **header_values):
    prefix_size = {10: 544, 11: 192}[record_type]
    records = [
        make_data_record(
            line, record_type, prefix_size, make_pixels(line, n_pixels, type_code), seed=seed
        )
        for line in range(1, n_lines + 1)
    ]
    record_length = len(records[0]) if records else prefix_size
    header = {
        "number_of_sar_data_records": n_lines,
        "sar_data_record_length": record_length,
        "number_of_lines_per_dataset": n_lines,
        "number_of_data_groups_per_line": n_pixels,
        "number_of_bytes_of_prefix_data_per_record": prefix_size,
        "number_of_bytes_of_sar_data_per_record": record_length - prefix_size,
        "sar_data_format_type_code": type_code,
    } | header_values
    return make_file_descriptor(**header) + b"".join(records)

def call(func, *args):
    before = describe(list(args))
    result = outcome(func, *args)
    after = describe(list(args))

    return {"outcome": result, "arguments_unchanged": before == after}


def spied_call(func, *args, names):
    """like call, but logs the calls to the named module attributes"""
    log = []
    saved = {}

    def make_spy(name, original):
        def spy(*args, **kwargs):
            log.append((name, len(args), sorted(kwargs)))
            return original(*args, **kwargs)

        return spy

    for name in names:
        saved[name] = getattr(metadata, name)
        setattr(metadata, name, make_spy(name, saved[name]))
    try:
        result = call(func, *args)
    finally:
        for name, value in saved.items():
            setattr(metadata, name, value)
    result["calls"] = log
    return result


SPIED = [
    "extract_format_type", "extract_shape", "extract_attrs", "transform_line_metadata",
    "deduplicate_attrs", "apply_overrides", "remove_spares", "dissoc", "rename", "as_group",
    "separate_attrs",
]

d1 = dt.datetime(2020, 10, 1, 12, 37, 42, 451000)
d2 = dt.datetime(2020, 10, 2, 12, 37, 42, 451000)


def line_cases():
    yield "suite/ignored", [
        {
            "preamble": {}, "record_start": 1, "actual_count_of_left_fill_pixels": 0,
            "actual_count_of_right_fill_pixels": 0, "actual_count_of_data_pixels": 0,
            "palsar_auxiliary_data": b"", "blanks2": "", "data": {},
        }
    ]
    yield "suite/variables", [{"a": (1, {"units": "m"})}, {"a": (2, {"units": "m"})}]
    yield "suite/attrs", [{"scan_id": 1}, {"scan_id": 1}]
    yield "suite/dates", [{"sensor_acquisition_date": d1}, {"sensor_acquisition_date": d2}]
    yield "suite/renamed", [{"sar_image_data_line_number": 1}, {"sar_image_data_line_number": 2}]
    yield "empty", []
    yield "empty/tuple", ()
    yield "one-empty-line", [{}]
    yield "single-line", [{"a": 1, "scan_id": 4, "sar_image_data_line_number": 9}]
    yield "tuple-of-lines", ({"a": 1}, {"a": 2})
    yield "iterator-of-lines", iter([{"a": 1}, {"a": 2}])
    yield "attrs/varying", [{"scan_id": 1, "sar_channel_id": "x"}, {"scan_id": 2, "sar_channel_id": "y"}]
    yield "attrs/all-known", [
        {
            "sar_image_data_record_index": 1, "sensor_parameters_update_flag": 2, "scan_id": 3,
            "sar_channel_code": "L", "sar_channel_id": "single_polarization",
            "onboard_range_compressed_flag": False, "chirp_type_designator": "linear_fm_chirp",
            "platform_position_parameters_update_flag": "repeat", "alos2_frame_number": 7,
            "geographic_reference_parameter_update_flag": 8,
            "transmitted_pulse_polarization": "horizontal", "received_pulse_polarization": "vertical",
        }
    ] * 3
    yield "attrs/with-units", [{"scan_id": (1, {"units": "x"})}, {"scan_id": (2, {"units": "x"})}]
    yield "units/differing", [{"a": (1, {"units": "m"})}, {"a": (2, {"units": "km", "extra": 1})}]
    yield "units/mixed", [{"a": (1, {"units": "m"})}, {"a": 2}]
    yield "units/mixed-reversed", [{"a": 1}, {"a": (2, {"units": "m"})}]
    yield "units/three-tuple", [{"a": (1, {"units": "m"}, 3)}, {"a": (2, {"units": "m"}, 4)}]
    yield "units/one-tuple", [{"a": (1,)}, {"a": (2,)}]
    yield "units/empty-tuple", [{"a": ()}, {"a": ()}]
    yield "differing-keys", [{"a": 1, "b": 2}, {"b": 3, "c": 4}, {"c": 5, "a": 6, "scan_id": 0}]
    yield "nested", [
        {"platform_velocity": {"x": (1, {"units": "cm/s"}), "y": (2, {"units": "cm/s"})}},
        {"platform_velocity": {"x": (3, {"units": "cm/s"}), "y": (4, {"units": "cm/s"})}},
    ]
    yield "nested/spares", [{"g": {"spare1": 0, "keep": 1, "blanks": b""}}, {"g": {"spare1": 0, "keep": 2}}]
    yield "spares", [
        {"spare": 1, "spare1": 2, "spare12": 3, "blanks": 4, "blanks3": 5, "spare_x": 6,
         "blanksy": 7, "sparespare": 8, "spareblanks": 9, "blanksspare1": 10, "x_spare": 11}
    ] * 2
    yield "values/lists", [{"a": [1, 2]}, {"a": [3, 4]}]
    yield "values/bytes-and-none", [{"a": b"x", "b": None}, {"a": b"y", "b": None}]
    yield "values/strings", [{"a": "p"}, {"a": "q"}]
    yield "dates/both", [
        {"sensor_acquisition_date": d1, "sensor_acquisition_date_microseconds": d2},
        {"sensor_acquisition_date": d2, "sensor_acquisition_date_microseconds": d1},
    ]
    yield "dates/strings", [{"sensor_acquisition_date": "2020-01-01"}, {"sensor_acquisition_date": "2020-01-02T03"}]
    yield "dates/invalid", [{"sensor_acquisition_date": "yesterday"}]
    yield "dates/numbers", [{"sensor_acquisition_date_microseconds": 5}, {"sensor_acquisition_date_microseconds": 6}]
    yield "dates/none", [{"sensor_acquisition_date": None}]
    yield "dates/with-units", [{"sensor_acquisition_date": (d1, {"k": 1})}, {"sensor_acquisition_date": (d2, {"k": 1})}]
    yield "rename/collision", [{"rows": 5, "sar_image_data_line_number": 1}, {"rows": 6, "sar_image_data_line_number": 2}]
    yield "rename/collision-reversed", [{"sar_image_data_line_number": 1, "rows": 5}]
    yield "frame-number", [{"alos2_frame_number": 3, "a": 1}]
    yield "keys/not-strings", [{1: 2}]
    yield "bad/none", None
    yield "bad/int", 5
    yield "bad/str", "ab"
    yield "bad/dict", {"a": {"b": 1}}
    yield "bad/dict-of-scalars", {"a": 1}
    yield "bad/[none]", [None]
    yield "bad/[int]", [5]
    yield "bad/[[int]]", [[1, 2]]
    yield "bad/[str]", ["ab"]
    yield "bad/[dict,none]", [{"a": 1}, None]
    yield "bad/[none,dict]", [None, {"a": 1}]
    yield "bad/[list-of-dicts]", [[{"a": 1}, {"a": 2}]]
    yield "bad/[pairs]", [[("a", 1)]]
    yield "bad/[dict,pairs]", [{"a": 1}, [("a", 2)]]


HEADERS = {
    "IU2": {
        "prefix_suffix_data_locators": {"sar_data_format_type_code": "IU2"},
        "sar_related_data_in_the_record": {
            "number_of_lines_per_dataset": 2, "number_of_data_groups_per_line": 4,
        },
    },
    "C*8": {
        "prefix_suffix_data_locators": {"sar_data_format_type_code": "C*8"},
        "sar_related_data_in_the_record": {
            "number_of_lines_per_dataset": 6, "number_of_data_groups_per_line": 3,
        },
    },
    "F*4": {
        "prefix_suffix_data_locators": {"sar_data_format_type_code": "F*4"},
        "sar_related_data_in_the_record": {
            "number_of_lines_per_dataset": 6, "number_of_data_groups_per_line": 3,
        },
    },
    "none-code": {
        "prefix_suffix_data_locators": {"sar_data_format_type_code": None},
        "sar_related_data_in_the_record": {
            "number_of_lines_per_dataset": 6, "number_of_data_groups_per_line": 3,
        },
    },
    "unhashable-code": {
        "prefix_suffix_data_locators": {"sar_data_format_type_code": ["IU2"]},
        "sar_related_data_in_the_record": {
            "number_of_lines_per_dataset": 6, "number_of_data_groups_per_line": 3,
        },
    },
    "with-attrs": {
        "preamble": {"record_length": 720},
        "prefix_suffix_data_locators": {
            "sar_data_format_type_code": "IU2", "maximum_data_range_of_pixel": 255,
            "number_of_burst_data": -1, "number_of_lines_per_burst": 4,
        },
        "sar_related_data_in_the_record": {
            "number_of_lines_per_dataset": 2, "number_of_data_groups_per_line": 4,
            "interleaving_id": "BSQ",
        },
        "scansar_burst_data_information": {"number_of_overlap_lines_with_adjacent_bursts": -1},
    },
    "attrs-clash": {
        "prefix_suffix_data_locators": {"sar_data_format_type_code": "IU2", "interleaving_id": "hdr"},
        "sar_related_data_in_the_record": {
            "number_of_lines_per_dataset": 2, "number_of_data_groups_per_line": 4,
        },
    },
    "bad-attrs": {
        "prefix_suffix_data_locators": {
            "sar_data_format_type_code": "IU2", "maximum_data_range_of_pixel": "abc",
        },
        "sar_related_data_in_the_record": {
            "number_of_lines_per_dataset": 2, "number_of_data_groups_per_line": 4,
        },
    },
    "bad-attrs-and-code": {
        "prefix_suffix_data_locators": {
            "sar_data_format_type_code": "XX", "maximum_data_range_of_pixel": "abc",
        },
        "sar_related_data_in_the_record": {
            "number_of_lines_per_dataset": 2, "number_of_data_groups_per_line": 4,
        },
    },
    "no-locators": {
        "sar_related_data_in_the_record": {
            "number_of_lines_per_dataset": 2, "number_of_data_groups_per_line": 4,
        },
    },
    "no-code": {
        "prefix_suffix_data_locators": {},
        "sar_related_data_in_the_record": {
            "number_of_lines_per_dataset": 2, "number_of_data_groups_per_line": 4,
        },
    },
    "no-shape-section": {"prefix_suffix_data_locators": {"sar_data_format_type_code": "IU2"}},
    "no-lines": {
        "prefix_suffix_data_locators": {"sar_data_format_type_code": "IU2"},
        "sar_related_data_in_the_record": {"number_of_data_groups_per_line": 4},
    },
    "no-groups": {
        "prefix_suffix_data_locators": {"sar_data_format_type_code": "XX"},
        "sar_related_data_in_the_record": {"number_of_lines_per_dataset": 4},
    },
    "empty": {},
    "none": None,
}

LINES = {
    "suite1": [{"data": {"start": 1, "stop": 5}}, {"data": {"start": 6, "stop": 10}}],
    "suite2": [{"data": {"start": 5, "stop": 21}}, {"data": {"start": 25, "stop": 41}}],
    "empty": [],
    "suite-lines": [
        {"scan_id": 1, "sar_image_data_line_number": 1, "data": {"start": 5, "stop": 21}},
        {"scan_id": 1, "sar_image_data_line_number": 2, "data": {"start": 25, "stop": 41}},
    ],
    "rich": [
        {"sar_image_data_line_number": 1, "prf": (5, {"units": "mHz"}), "sensor_acquisition_date": d1,
         "scan_id": 2, "interleaving_id": "line", "coordinates": "c", "data": {"start": 0, "stop": 8, "size": 8}},
        {"sar_image_data_line_number": 2, "prf": (6, {"units": "mHz"}), "sensor_acquisition_date": d2,
         "scan_id": 2, "interleaving_id": "line", "coordinates": "c", "data": {"start": 8, "stop": 16, "size": 8}},
    ],
    "no-data": [{"a": 1}],
    "no-data-second": [{"data": {"start": 1, "stop": 2}}, {"a": 1}],
    "no-stop": [{"data": {"start": 1}}],
    "no-start": [{"data": {"stop": 1}}],
    "data-not-mapping": [{"data": 5}],
    "bad-dates": [{"data": {"start": 1, "stop": 2}, "sensor_acquisition_date": "yesterday"}],
    "line-none": [None],
    "none": None,
    "tuple": ({"data": {"start": 1, "stop": 5}},),
}


def compute():
    results = {}

    for name, lines in line_cases():
        if name == "iterator-of-lines":
            results[f"lines/{name}"] = {"outcome": outcome(metadata.transform_line_metadata, lines)}
            continue
        results[f"lines/{name}"] = call(metadata.transform_line_metadata, copy.deepcopy(lines))

    results["lines/spied"] = spied_call(
        metadata.transform_line_metadata, copy.deepcopy(LINES["rich"]), names=SPIED
    )
    results["lines/spied/failing"] = spied_call(
        metadata.transform_line_metadata, copy.deepcopy(LINES["bad-dates"]), names=SPIED
    )

    # independent results
    lines = [{"scan_id": 1, "a": (1, {"units": "m"}), "sensor_acquisition_date": d1}]
    group = metadata.transform_line_metadata(lines)
    group.attrs["scan_id"] = "modified"
    group.data["a"].attrs["units"] = "modified"
    group.data.pop("sensor_acquisition_date")
    results["lines/independent-results"] = call(metadata.transform_line_metadata, lines)

    for header_name, header in HEADERS.items():
        for lines_name, lines in LINES.items():
            results[f"metadata/{header_name}/{lines_name}"] = call(
                metadata.transform_metadata, copy.deepcopy(header), copy.deepcopy(lines)
            )

    for header_name, lines_name in (
        ("with-attrs", "rich"), ("F*4", "rich"), ("IU2", "no-data"), ("bad-attrs", "bad-dates"),
        ("bad-attrs-and-code", "no-data"), ("no-lines", "suite1"), ("IU2", "bad-dates"),
    ):
        results[f"metadata/spied/{header_name}/{lines_name}"] = spied_call(
            metadata.transform_metadata,
            copy.deepcopy(HEADERS[header_name]),
            copy.deepcopy(LINES[lines_name]),
            names=SPIED,
        )

    # the table of dtypes is looked up in the module at call time
    saved = metadata.dtypes
    metadata.dtypes = {"F*4": np.dtype("float32"), "XX": "not-a-dtype", "IU2": 0}
    try:
        for header_name in ("F*4", "IU2", "C*8", "bad-attrs-and-code"):
            results[f"metadata/replaced-dtypes/{header_name}"] = call(
                metadata.transform_metadata, copy.deepcopy(HEADERS[header_name]), copy.deepcopy(LINES["suite1"])
            )
    finally:
        metadata.dtypes = saved
    results["metadata/dtypes"] = describe(metadata.dtypes)

    # real files
    for record_type, type_code, n_lines, values in (
        (10, "C*8", 3, {}),
        (10, "IU2", 1, {"number_of_burst_data": 3, "number_of_lines_per_burst": 1,
                        "number_of_overlap_lines_with_adjacent_bursts": 0}),
        (11, "IU2", 4, {"maximum_data_range_of_pixel": 65535}),
        (11, "C*8", 0, {}),
        (11, "R*4", 2, {}),
    ):
        content = make_image(
            n_lines, 2, record_type=record_type, type_code="IU2" if type_code == "R*4" else type_code,
            seed=n_lines, sar_data_format_type_code=type_code, **values
        )
        header, lines = sar_io.read_metadata(_io.BytesIO(content), 2)
        results[f"real/{record_type}/{type_code}/lines"] = call(metadata.transform_line_metadata, lines)
        results[f"real/{record_type}/{type_code}/metadata"] = call(metadata.transform_metadata, header, lines)

    results["module/names"] = sorted(
        name
        for name in (
            "extract_format_type", "extract_shape", "extract_attrs", "apply_overrides",
            "deduplicate_attrs", "transform_line_metadata", "dtypes", "transform_metadata",
        )
        if hasattr(metadata, name)
    )
    import inspect

    results["module/signatures"] = [
        str(inspect.signature(getattr(metadata, name)))
        for name in ("transform_line_metadata", "transform_metadata")
    ]

    return results


# === BEGIN RECORDED (from the unchanged code; EQUIV_RECORD=1 regenerates) ===
EXPECTED = {'lines/suite/ignored': {'outcome': ('returned', ('Group', '/', None, ('dict', []), ('dict', []))), 'arguments_unchanged': True},
 'lines/suite/variables': {'outcome': ('returned',
                                       ('Group', '/', None, ('dict', [('a', ('Variable', ['rows'], [1, 2], ('dict', [('units', 'm')])))]), ('dict', []))),
                           'arguments_unchanged': True},
 'lines/suite/attrs': {'outcome': ('returned', ('Group', '/', None, ('dict', []), ('dict', [('scan_id', 1)]))), 'arguments_unchanged': True},
 'lines/suite/dates': {'outcome': ('returned',
                                   ('Group', '/', None,
                                    ('dict',
                                     [('sensor_acquisition_date',
                                       ('Variable', ['rows'],
                                        ('ndarray', 'datetime64[ns]', (2,), ['2020-10-01T12:37:42.451000000', '2020-10-02T12:37:42.451000000']),
                                        ('dict', [])))]),
                                    ('dict', []))),
                       'arguments_unchanged': True},
 'lines/suite/renamed': {'outcome': ('returned', ('Group', '/', None, ('dict', [('rows', ('Variable', ['rows'], [1, 2], ('dict', [])))]), ('dict', []))),
                         'arguments_unchanged': True},
 'lines/empty': {'outcome': ('returned', ('Group', '/', None, ('dict', []), ('dict', []))), 'arguments_unchanged': True},
 'lines/empty/tuple': {'outcome': ('returned', ('Group', '/', None, ('dict', []), ('dict', []))), 'arguments_unchanged': True},
 'lines/one-empty-line': {'outcome': ('returned', ('Group', '/', None, ('dict', []), ('dict', []))), 'arguments_unchanged': True},
 'lines/single-line': {'outcome': ('returned',
                                   ('Group', '/', None,
                                    ('dict', [('a', ('Variable', ['rows'], [1], ('dict', []))), ('rows', ('Variable', ['rows'], [9], ('dict', [])))]),
                                    ('dict', [('scan_id', 4)]))),
                       'arguments_unchanged': True},
 'lines/tuple-of-lines': {'outcome': ('returned', ('Group', '/', None, ('dict', [('a', ('Variable', ['rows'], [1, 2], ('dict', [])))]), ('dict', []))),
                          'arguments_unchanged': True},
 'lines/iterator-of-lines': {'outcome': ('returned', ('Group', '/', None, ('dict', [('a', ('Variable', ['rows'], [1, 2], ('dict', [])))]), ('dict', [])))},
 'lines/attrs/varying': {'outcome': ('returned', ('Group', '/', None, ('dict', []), ('dict', [('scan_id', 1), ('sar_channel_id', 'x')]))),
                         'arguments_unchanged': True},
 'lines/attrs/all-known': {'outcome': ('returned',
                                       ('Group', '/', None, ('dict', []),
                                        ('dict',
                                         [('sar_image_data_record_index', 1), ('sensor_parameters_update_flag', 2), ('scan_id', 3), ('sar_channel_code', 'L'),
                                          ('sar_channel_id', 'single_polarization'), ('onboard_range_compressed_flag', False),
                                          ('chirp_type_designator', 'linear_fm_chirp'), ('platform_position_parameters_update_flag', 'repeat'),
                                          ('geographic_reference_parameter_update_flag', 8), ('transmitted_pulse_polarization', 'horizontal'),
                                          ('received_pulse_polarization', 'vertical')]))),
                           'arguments_unchanged': True},
 'lines/attrs/with-units': {'outcome': ('returned', ('Group', '/', None, ('dict', []), ('dict', [('scan_id', 1)]))), 'arguments_unchanged': True},
 'lines/units/differing': {'outcome': ('returned',
                                       ('Group', '/', None, ('dict', [('a', ('Variable', ['rows'], [1, 2], ('dict', [('units', 'm')])))]), ('dict', []))),
                           'arguments_unchanged': True},
 'lines/units/mixed': {'outcome': ('raised', 'builtins', 'TypeError', "'int' object is not iterable"), 'arguments_unchanged': True},
 'lines/units/mixed-reversed': {'outcome': ('returned',
                                            ('Group', '/', None, ('dict', [('a', ('Variable', ['rows'], [1, (2, ('dict', [('units', 'm')]))], ('dict', [])))]),
                                             ('dict', []))),
                                'arguments_unchanged': True},
 'lines/units/three-tuple': {'outcome': ('raised', 'builtins', 'ValueError', 'too many values to unpack (expected 2)'), 'arguments_unchanged': True},
 'lines/units/one-tuple': {'outcome': ('raised', 'builtins', 'ValueError', 'not enough values to unpack (expected 2, got 1)'), 'arguments_unchanged': True},
 'lines/units/empty-tuple': {'outcome': ('raised', 'builtins', 'ValueError', 'not enough values to unpack (expected 2, got 0)'), 'arguments_unchanged': True},
 'lines/differing-keys': {'outcome': ('returned',
                                      ('Group', '/', None,
                                       ('dict',
                                        [('a', ('Variable', ['rows'], [1, 6], ('dict', []))), ('b', ('Variable', ['rows'], [2, 3], ('dict', []))),
                                         ('c', ('Variable', ['rows'], [4, 5], ('dict', [])))]),
                                       ('dict', [('scan_id', 0)]))),
                          'arguments_unchanged': True},
 'lines/nested': {'outcome': ('returned',
                              ('Group', '/', None,
                               ('dict',
                                [('platform_velocity',
                                  ('Variable', ['rows'],
                                   [('dict', [('x', (1, ('dict', [('units', 'cm/s')]))), ('y', (2, ('dict', [('units', 'cm/s')])))]),
                                    ('dict', [('x', (3, ('dict', [('units', 'cm/s')]))), ('y', (4, ('dict', [('units', 'cm/s')])))])],
                                   ('dict', [])))]),
                               ('dict', []))),
                  'arguments_unchanged': True},
 'lines/nested/spares': {'outcome': ('returned',
                                     ('Group', '/', None,
                                      ('dict', [('g', ('Variable', ['rows'], [('dict', [('keep', 1)]), ('dict', [('keep', 2)])], ('dict', [])))]),
                                      ('dict', []))),
                         'arguments_unchanged': True},
 'lines/spares': {'outcome': ('returned',
                              ('Group', '/', None,
                               ('dict',
                                [('spare_x', ('Variable', ['rows'], [6, 6], ('dict', []))), ('blanksy', ('Variable', ['rows'], [7, 7], ('dict', []))),
                                 ('sparespare', ('Variable', ['rows'], [8, 8], ('dict', []))), ('blanksspare1', ('Variable', ['rows'], [10, 10], ('dict', []))),
                                 ('x_spare', ('Variable', ['rows'], [11, 11], ('dict', [])))]),
                               ('dict', []))),
                  'arguments_unchanged': True},
 'lines/values/lists': {'outcome': ('returned', ('Group', '/', None, ('dict', [('a', ('Variable', ['rows'], [[1, 2], [3, 4]], ('dict', [])))]), ('dict', []))),
                        'arguments_unchanged': True},
 'lines/values/bytes-and-none': {'outcome': ('returned',
                                             ('Group', '/', None,
                                              ('dict',
                                               [('a', ('Variable', ['rows'], [b'x', b'y'], ('dict', []))),
                                                ('b', ('Variable', ['rows'], [None, None], ('dict', [])))]),
                                              ('dict', []))),
                                 'arguments_unchanged': True},
 'lines/values/strings': {'outcome': ('returned', ('Group', '/', None, ('dict', [('a', ('Variable', ['rows'], ['p', 'q'], ('dict', [])))]), ('dict', []))),
                          'arguments_unchanged': True},
 'lines/dates/both': {'outcome': ('returned',
                                  ('Group', '/', None,
                                   ('dict',
                                    [('sensor_acquisition_date',
                                      ('Variable', ['rows'],
                                       ('ndarray', 'datetime64[ns]', (2,), ['2020-10-01T12:37:42.451000000', '2020-10-02T12:37:42.451000000']), ('dict', []))),
                                     ('sensor_acquisition_date_microseconds',
                                      ('Variable', ['rows'],
                                       ('ndarray', 'datetime64[ns]', (2,), ['2020-10-02T12:37:42.451000000', '2020-10-01T12:37:42.451000000']),
                                       ('dict', [])))]),
                                   ('dict', []))),
                      'arguments_unchanged': True},
 'lines/dates/strings': {'outcome': ('returned',
                                     ('Group', '/', None,
                                      ('dict',
                                       [('sensor_acquisition_date',
                                         ('Variable', ['rows'],
                                          ('ndarray', 'datetime64[ns]', (2,), ['2020-01-01T00:00:00.000000000', '2020-01-02T03:00:00.000000000']),
                                          ('dict', [])))]),
                                      ('dict', []))),
                         'arguments_unchanged': True},
 'lines/dates/invalid': {'outcome': ('raised', 'builtins', 'ValueError', 'Error parsing datetime string "yesterday" at position 0'),
                         'arguments_unchanged': True},
 'lines/dates/numbers': {'outcome': ('returned',
                                     ('Group', '/', None,
                                      ('dict',
                                       [('sensor_acquisition_date_microseconds',
                                         ('Variable', ['rows'],
                                          ('ndarray', 'datetime64[ns]', (2,), ['1970-01-01T00:00:00.000000005', '1970-01-01T00:00:00.000000006']),
                                          ('dict', [])))]),
                                      ('dict', []))),
                         'arguments_unchanged': True},
 'lines/dates/none': {'outcome': ('returned',
                                  ('Group', '/', None,
                                   ('dict', [('sensor_acquisition_date', ('Variable', ['rows'], ('ndarray', 'datetime64[ns]', (1,), ['NaT']), ('dict', [])))]),
                                   ('dict', []))),
                      'arguments_unchanged': True},
 'lines/dates/with-units': {'outcome': ('returned',
                                        ('Group', '/', None,
                                         ('dict',
                                          [('sensor_acquisition_date',
                                            ('Variable', ['rows'],
                                             ('ndarray', 'datetime64[ns]', (2,), ['2020-10-01T12:37:42.451000000', '2020-10-02T12:37:42.451000000']),
                                             ('dict', [('k', 1)])))]),
                                         ('dict', []))),
                            'arguments_unchanged': True},
 'lines/rename/collision': {'outcome': ('returned', ('Group', '/', None, ('dict', [('rows', ('Variable', ['rows'], [1, 2], ('dict', [])))]), ('dict', []))),
                            'arguments_unchanged': True},
 'lines/rename/collision-reversed': {'outcome': ('returned',
                                                 ('Group', '/', None, ('dict', [('rows', ('Variable', ['rows'], [5], ('dict', [])))]), ('dict', []))),
                                     'arguments_unchanged': True},
 'lines/frame-number': {'outcome': ('returned', ('Group', '/', None, ('dict', [('a', ('Variable', ['rows'], [1], ('dict', [])))]), ('dict', []))),
                        'arguments_unchanged': True},
 'lines/keys/not-strings': {'outcome': ('raised', 'builtins', 'AttributeError', "'int' object has no attribute 'startswith'"), 'arguments_unchanged': True},
 'lines/bad/none': {'outcome': ('raised', 'builtins', 'TypeError', 'toolz.dicttoolz.merge_with() argument after * must be an iterable, not NoneType'),
                    'arguments_unchanged': True},
 'lines/bad/int': {'outcome': ('raised', 'builtins', 'TypeError', 'toolz.dicttoolz.merge_with() argument after * must be an iterable, not int'),
                   'arguments_unchanged': True},
 'lines/bad/str': {'outcome': ('raised', 'builtins', 'AttributeError', "'str' object has no attribute 'items'"), 'arguments_unchanged': True},
 'lines/bad/dict': {'outcome': ('raised', 'builtins', 'AttributeError', "'str' object has no attribute 'items'"), 'arguments_unchanged': True},
 'lines/bad/dict-of-scalars': {'outcome': ('raised', 'builtins', 'AttributeError', "'str' object has no attribute 'items'"), 'arguments_unchanged': True},
 'lines/bad/[none]': {'outcome': ('raised', 'builtins', 'AttributeError', "'curry' object has no attribute 'items'"), 'arguments_unchanged': True},
 'lines/bad/[int]': {'outcome': ('raised', 'builtins', 'AttributeError', "'curry' object has no attribute 'items'"), 'arguments_unchanged': True},
 'lines/bad/[[int]]': {'outcome': ('raised', 'builtins', 'AttributeError', "'int' object has no attribute 'items'"), 'arguments_unchanged': True},
 'lines/bad/[str]': {'outcome': ('raised', 'builtins', 'AttributeError', "'str' object has no attribute 'items'"), 'arguments_unchanged': True},
 'lines/bad/[dict,none]': {'outcome': ('raised', 'builtins', 'AttributeError', "'NoneType' object has no attribute 'items'"), 'arguments_unchanged': True},
 'lines/bad/[none,dict]': {'outcome': ('raised', 'builtins', 'AttributeError', "'NoneType' object has no attribute 'items'"), 'arguments_unchanged': True},
 'lines/bad/[list-of-dicts]': {'outcome': ('returned', ('Group', '/', None, ('dict', [('a', ('Variable', ['rows'], [1, 2], ('dict', [])))]), ('dict', []))),
                               'arguments_unchanged': True},
 'lines/bad/[pairs]': {'outcome': ('raised', 'builtins', 'AttributeError', "'tuple' object has no attribute 'items'"), 'arguments_unchanged': True},
 'lines/bad/[dict,pairs]': {'outcome': ('raised', 'builtins', 'AttributeError', "'list' object has no attribute 'items'"), 'arguments_unchanged': True},
 'lines/spied': {'outcome': ('returned',
                             ('Group', '/', None,
                              ('dict',
                               [('rows', ('Variable', ['rows'], [1, 2], ('dict', []))), ('prf', ('Variable', ['rows'], [5, 6], ('dict', [('units', 'mHz')]))),
                                ('sensor_acquisition_date',
                                 ('Variable', ['rows'], ('ndarray', 'datetime64[ns]', (2,), ['2020-10-01T12:37:42.451000000', '2020-10-02T12:37:42.451000000']),
                                  ('dict', []))),
                                ('interleaving_id', ('Variable', ['rows'], ['line', 'line'], ('dict', []))),
                                ('coordinates', ('Variable', ['rows'], ['c', 'c'], ('dict', [])))]),
                              ('dict', [('scan_id', 2)]))),
                 'arguments_unchanged': True,
                 'calls': [('remove_spares', 1, []), ('dissoc', 2, []), ('separate_attrs', 1, []), ('separate_attrs', 1, []), ('separate_attrs', 1, []),
                           ('separate_attrs', 1, []), ('separate_attrs', 1, []), ('separate_attrs', 1, []), ('deduplicate_attrs', 2, []),
                           ('apply_overrides', 2, []), ('rename', 1, ['translations']), ('as_group', 1, [])]},
 'lines/spied/failing': {'outcome': ('raised', 'builtins', 'ValueError', 'Error parsing datetime string "yesterday" at position 0'),
                         'arguments_unchanged': True,
                         'calls': [('remove_spares', 1, []), ('dissoc', 2, []), ('separate_attrs', 1, []), ('deduplicate_attrs', 2, []),
                                   ('apply_overrides', 2, [])]},
 'lines/independent-results': {'outcome': ('returned',
                                           ('Group', '/', None,
                                            ('dict',
                                             [('a', ('Variable', ['rows'], [1], ('dict', [('units', 'modified')]))),
                                              ('sensor_acquisition_date',
                                               ('Variable', ['rows'], ('ndarray', 'datetime64[ns]', (1,), ['2020-10-01T12:37:42.451000000']), ('dict', [])))]),
                                            ('dict', [('scan_id', 1)]))),
                               'arguments_unchanged': True},
 'metadata/IU2/suite1': {'outcome': ('returned',
                                     (('Group', '/', None, ('dict', []), ('dict', [('coordinates', [])])),
                                      ('dict', [('type_code', 'IU2'), ('shape', (2, 4)), ('dtype', 'uint16'), ('byte_ranges', [(1, 5), (6, 10)])]))),
                         'arguments_unchanged': True},
 'metadata/IU2/suite2': {'outcome': ('returned',
                                     (('Group', '/', None, ('dict', []), ('dict', [('coordinates', [])])),
                                      ('dict', [('type_code', 'IU2'), ('shape', (2, 4)), ('dtype', 'uint16'), ('byte_ranges', [(5, 21), (25, 41)])]))),
                         'arguments_unchanged': True},
 'metadata/IU2/empty': {'outcome': ('returned',
                                    (('Group', '/', None, ('dict', []), ('dict', [('coordinates', [])])),
                                     ('dict', [('type_code', 'IU2'), ('shape', (2, 4)), ('dtype', 'uint16'), ('byte_ranges', [])]))),
                        'arguments_unchanged': True},
 'metadata/IU2/suite-lines': {'outcome': ('returned',
                                          (('Group', '/', None, ('dict', [('rows', ('Variable', ['rows'], [1, 2], ('dict', [])))]),
                                            ('dict', [('scan_id', 1), ('coordinates', ['rows'])])),
                                           ('dict', [('type_code', 'IU2'), ('shape', (2, 4)), ('dtype', 'uint16'), ('byte_ranges', [(5, 21), (25, 41)])]))),
                              'arguments_unchanged': True},
 'metadata/IU2/rich': {'outcome': ('returned',
                                   (('Group', '/', None,
                                     ('dict',
                                      [('rows', ('Variable', ['rows'], [1, 2], ('dict', []))),
                                       ('prf', ('Variable', ['rows'], [5, 6], ('dict', [('units', 'mHz')]))),
                                       ('sensor_acquisition_date',
                                        ('Variable', ['rows'],
                                         ('ndarray', 'datetime64[ns]', (2,), ['2020-10-01T12:37:42.451000000', '2020-10-02T12:37:42.451000000']),
                                         ('dict', []))),
                                       ('interleaving_id', ('Variable', ['rows'], ['line', 'line'], ('dict', []))),
                                       ('coordinates', ('Variable', ['rows'], ['c', 'c'], ('dict', [])))]),
                                     ('dict', [('scan_id', 2), ('coordinates', ['rows', 'prf', 'sensor_acquisition_date', 'interleaving_id', 'coordinates'])])),
                                    ('dict', [('type_code', 'IU2'), ('shape', (2, 4)), ('dtype', 'uint16'), ('byte_ranges', [(0, 8), (8, 16)])]))),
                       'arguments_unchanged': True},
 'metadata/IU2/no-data': {'outcome': ('raised', 'builtins', 'KeyError', "'data'"), 'arguments_unchanged': True},
 'metadata/IU2/no-data-second': {'outcome': ('raised', 'builtins', 'KeyError', "'data'"), 'arguments_unchanged': True},
 'metadata/IU2/no-stop': {'outcome': ('raised', 'builtins', 'KeyError', "'stop'"), 'arguments_unchanged': True},
 'metadata/IU2/no-start': {'outcome': ('raised', 'builtins', 'KeyError', "'start'"), 'arguments_unchanged': True},
 'metadata/IU2/data-not-mapping': {'outcome': ('raised', 'builtins', 'TypeError', "'int' object is not subscriptable"), 'arguments_unchanged': True},
 'metadata/IU2/bad-dates': {'outcome': ('raised', 'builtins', 'ValueError', 'Error parsing datetime string "yesterday" at position 0'),
                            'arguments_unchanged': True},
 'metadata/IU2/line-none': {'outcome': ('raised', 'builtins', 'TypeError', "'NoneType' object is not subscriptable"), 'arguments_unchanged': True},
 'metadata/IU2/none': {'outcome': ('raised', 'builtins', 'TypeError', "'NoneType' object is not iterable"), 'arguments_unchanged': True},
 'metadata/IU2/tuple': {'outcome': ('returned',
                                    (('Group', '/', None, ('dict', []), ('dict', [('coordinates', [])])),
                                     ('dict', [('type_code', 'IU2'), ('shape', (2, 4)), ('dtype', 'uint16'), ('byte_ranges', [(1, 5)])]))),
                        'arguments_unchanged': True},
 'metadata/C*8/suite1': {'outcome': ('returned',
                                     (('Group', '/', None, ('dict', []), ('dict', [('coordinates', [])])),
                                      ('dict', [('type_code', 'C*8'), ('shape', (6, 3)), ('dtype', 'complex64'), ('byte_ranges', [(1, 5), (6, 10)])]))),
                         'arguments_unchanged': True},
 'metadata/C*8/suite2': {'outcome': ('returned',
                                     (('Group', '/', None, ('dict', []), ('dict', [('coordinates', [])])),
                                      ('dict', [('type_code', 'C*8'), ('shape', (6, 3)), ('dtype', 'complex64'), ('byte_ranges', [(5, 21), (25, 41)])]))),
                         'arguments_unchanged': True},
 'metadata/C*8/empty': {'outcome': ('returned',
                                    (('Group', '/', None, ('dict', []), ('dict', [('coordinates', [])])),
                                     ('dict', [('type_code', 'C*8'), ('shape', (6, 3)), ('dtype', 'complex64'), ('byte_ranges', [])]))),
                        'arguments_unchanged': True},
 'metadata/C*8/suite-lines': {'outcome': ('returned',
                                          (('Group', '/', None, ('dict', [('rows', ('Variable', ['rows'], [1, 2], ('dict', [])))]),
                                            ('dict', [('scan_id', 1), ('coordinates', ['rows'])])),
                                           ('dict', [('type_code', 'C*8'), ('shape', (6, 3)), ('dtype', 'complex64'), ('byte_ranges', [(5, 21), (25, 41)])]))),
                              'arguments_unchanged': True},
 'metadata/C*8/rich': {'outcome': ('returned',
                                   (('Group', '/', None,
                                     ('dict',
                                      [('rows', ('Variable', ['rows'], [1, 2], ('dict', []))),
                                       ('prf', ('Variable', ['rows'], [5, 6], ('dict', [('units', 'mHz')]))),
                                       ('sensor_acquisition_date',
                                        ('Variable', ['rows'],
                                         ('ndarray', 'datetime64[ns]', (2,), ['2020-10-01T12:37:42.451000000', '2020-10-02T12:37:42.451000000']),
                                         ('dict', []))),
                                       ('interleaving_id', ('Variable', ['rows'], ['line', 'line'], ('dict', []))),
                                       ('coordinates', ('Variable', ['rows'], ['c', 'c'], ('dict', [])))]),
                                     ('dict', [('scan_id', 2), ('coordinates', ['rows', 'prf', 'sensor_acquisition_date', 'interleaving_id', 'coordinates'])])),
                                    ('dict', [('type_code', 'C*8'), ('shape', (6, 3)), ('dtype', 'complex64'), ('byte_ranges', [(0, 8), (8, 16)])]))),
                       'arguments_unchanged': True},
 'metadata/C*8/no-data': {'outcome': ('raised', 'builtins', 'KeyError', "'data'"), 'arguments_unchanged': True},
 'metadata/C*8/no-data-second': {'outcome': ('raised', 'builtins', 'KeyError', "'data'"), 'arguments_unchanged': True},
 'metadata/C*8/no-stop': {'outcome': ('raised', 'builtins', 'KeyError', "'stop'"), 'arguments_unchanged': True},
 'metadata/C*8/no-start': {'outcome': ('raised', 'builtins', 'KeyError', "'start'"), 'arguments_unchanged': True},
 'metadata/C*8/data-not-mapping': {'outcome': ('raised', 'builtins', 'TypeError', "'int' object is not subscriptable"), 'arguments_unchanged': True},
 'metadata/C*8/bad-dates': {'outcome': ('raised', 'builtins', 'ValueError', 'Error parsing datetime string "yesterday" at position 0'),
                            'arguments_unchanged': True},
 'metadata/C*8/line-none': {'outcome': ('raised', 'builtins', 'TypeError', "'NoneType' object is not subscriptable"), 'arguments_unchanged': True},
 'metadata/C*8/none': {'outcome': ('raised', 'builtins', 'TypeError', "'NoneType' object is not iterable"), 'arguments_unchanged': True},
 'metadata/C*8/tuple': {'outcome': ('returned',
                                    (('Group', '/', None, ('dict', []), ('dict', [('coordinates', [])])),
                                     ('dict', [('type_code', 'C*8'), ('shape', (6, 3)), ('dtype', 'complex64'), ('byte_ranges', [(1, 5)])]))),
                        'arguments_unchanged': True},
 'metadata/F*4/suite1': {'outcome': ('raised', 'builtins', 'ValueError', 'unknown type code: F*4'), 'arguments_unchanged': True},
 'metadata/F*4/suite2': {'outcome': ('raised', 'builtins', 'ValueError', 'unknown type code: F*4'), 'arguments_unchanged': True},
 'metadata/F*4/empty': {'outcome': ('raised', 'builtins', 'ValueError', 'unknown type code: F*4'), 'arguments_unchanged': True},
 'metadata/F*4/suite-lines': {'outcome': ('raised', 'builtins', 'ValueError', 'unknown type code: F*4'), 'arguments_unchanged': True},
 'metadata/F*4/rich': {'outcome': ('raised', 'builtins', 'ValueError', 'unknown type code: F*4'), 'arguments_unchanged': True},
 'metadata/F*4/no-data': {'outcome': ('raised', 'builtins', 'KeyError', "'data'"), 'arguments_unchanged': True},
 'metadata/F*4/no-data-second': {'outcome': ('raised', 'builtins', 'KeyError', "'data'"), 'arguments_unchanged': True},
 'metadata/F*4/no-stop': {'outcome': ('raised', 'builtins', 'KeyError', "'stop'"), 'arguments_unchanged': True},
 'metadata/F*4/no-start': {'outcome': ('raised', 'builtins', 'KeyError', "'start'"), 'arguments_unchanged': True},
 'metadata/F*4/data-not-mapping': {'outcome': ('raised', 'builtins', 'TypeError', "'int' object is not subscriptable"), 'arguments_unchanged': True},
 'metadata/F*4/bad-dates': {'outcome': ('raised', 'builtins', 'ValueError', 'unknown type code: F*4'), 'arguments_unchanged': True},
 'metadata/F*4/line-none': {'outcome': ('raised', 'builtins', 'TypeError', "'NoneType' object is not subscriptable"), 'arguments_unchanged': True},
 'metadata/F*4/none': {'outcome': ('raised', 'builtins', 'TypeError', "'NoneType' object is not iterable"), 'arguments_unchanged': True},
 'metadata/F*4/tuple': {'outcome': ('raised', 'builtins', 'ValueError', 'unknown type code: F*4'), 'arguments_unchanged': True},
 'metadata/none-code/suite1': {'outcome': ('raised', 'builtins', 'ValueError', 'unknown type code: None'), 'arguments_unchanged': True},
 'metadata/none-code/suite2': {'outcome': ('raised', 'builtins', 'ValueError', 'unknown type code: None'), 'arguments_unchanged': True},
 'metadata/none-code/empty': {'outcome': ('raised', 'builtins', 'ValueError', 'unknown type code: None'), 'arguments_unchanged': True},
 'metadata/none-code/suite-lines': {'outcome': ('raised', 'builtins', 'ValueError', 'unknown type code: None'), 'arguments_unchanged': True},
 'metadata/none-code/rich': {'outcome': ('raised', 'builtins', 'ValueError', 'unknown type code: None'), 'arguments_unchanged': True},
 'metadata/none-code/no-data': {'outcome': ('raised', 'builtins', 'KeyError', "'data'"), 'arguments_unchanged': True},
 'metadata/none-code/no-data-second': {'outcome': ('raised', 'builtins', 'KeyError', "'data'"), 'arguments_unchanged': True},
 'metadata/none-code/no-stop': {'outcome': ('raised', 'builtins', 'KeyError', "'stop'"), 'arguments_unchanged': True},
 'metadata/none-code/no-start': {'outcome': ('raised', 'builtins', 'KeyError', "'start'"), 'arguments_unchanged': True},
 'metadata/none-code/data-not-mapping': {'outcome': ('raised', 'builtins', 'TypeError', "'int' object is not subscriptable"), 'arguments_unchanged': True},
 'metadata/none-code/bad-dates': {'outcome': ('raised', 'builtins', 'ValueError', 'unknown type code: None'), 'arguments_unchanged': True},
 'metadata/none-code/line-none': {'outcome': ('raised', 'builtins', 'TypeError', "'NoneType' object is not subscriptable"), 'arguments_unchanged': True},
 'metadata/none-code/none': {'outcome': ('raised', 'builtins', 'TypeError', "'NoneType' object is not iterable"), 'arguments_unchanged': True},
 'metadata/none-code/tuple': {'outcome': ('raised', 'builtins', 'ValueError', 'unknown type code: None'), 'arguments_unchanged': True},
 'metadata/unhashable-code/suite1': {'outcome': ('raised', 'builtins', 'TypeError', "unhashable type: 'list'"), 'arguments_unchanged': True},
 'metadata/unhashable-code/suite2': {'outcome': ('raised', 'builtins', 'TypeError', "unhashable type: 'list'"), 'arguments_unchanged': True},
 'metadata/unhashable-code/empty': {'outcome': ('raised', 'builtins', 'TypeError', "unhashable type: 'list'"), 'arguments_unchanged': True},
 'metadata/unhashable-code/suite-lines': {'outcome': ('raised', 'builtins', 'TypeError', "unhashable type: 'list'"), 'arguments_unchanged': True},
 'metadata/unhashable-code/rich': {'outcome': ('raised', 'builtins', 'TypeError', "unhashable type: 'list'"), 'arguments_unchanged': True},
 'metadata/unhashable-code/no-data': {'outcome': ('raised', 'builtins', 'KeyError', "'data'"), 'arguments_unchanged': True},
 'metadata/unhashable-code/no-data-second': {'outcome': ('raised', 'builtins', 'KeyError', "'data'"), 'arguments_unchanged': True},
 'metadata/unhashable-code/no-stop': {'outcome': ('raised', 'builtins', 'KeyError', "'stop'"), 'arguments_unchanged': True},
 'metadata/unhashable-code/no-start': {'outcome': ('raised', 'builtins', 'KeyError', "'start'"), 'arguments_unchanged': True},
 'metadata/unhashable-code/data-not-mapping': {'outcome': ('raised', 'builtins', 'TypeError', "'int' object is not subscriptable"),
                                               'arguments_unchanged': True},
 'metadata/unhashable-code/bad-dates': {'outcome': ('raised', 'builtins', 'TypeError', "unhashable type: 'list'"), 'arguments_unchanged': True},
 'metadata/unhashable-code/line-none': {'outcome': ('raised', 'builtins', 'TypeError', "'NoneType' object is not subscriptable"), 'arguments_unchanged': True},
 'metadata/unhashable-code/none': {'outcome': ('raised', 'builtins', 'TypeError', "'NoneType' object is not iterable"), 'arguments_unchanged': True},
 'metadata/unhashable-code/tuple': {'outcome': ('raised', 'builtins', 'TypeError', "unhashable type: 'list'"), 'arguments_unchanged': True},
 'metadata/with-attrs/suite1': {'outcome': ('returned',
                                            (('Group', '/', None, ('dict', []),
                                              ('dict',
                                               [('valid_range', [0, 255]), ('number_of_lines_per_burst', 4), ('interleaving_id', 'BSQ'), ('coordinates', [])])),
                                             ('dict', [('type_code', 'IU2'), ('shape', (2, 4)), ('dtype', 'uint16'), ('byte_ranges', [(1, 5), (6, 10)])]))),
                                'arguments_unchanged': True},
 'metadata/with-attrs/suite2': {'outcome': ('returned',
                                            (('Group', '/', None, ('dict', []),
                                              ('dict',
                                               [('valid_range', [0, 255]), ('number_of_lines_per_burst', 4), ('interleaving_id', 'BSQ'), ('coordinates', [])])),
                                             ('dict', [('type_code', 'IU2'), ('shape', (2, 4)), ('dtype', 'uint16'), ('byte_ranges', [(5, 21), (25, 41)])]))),
                                'arguments_unchanged': True},
 'metadata/with-attrs/empty': {'outcome': ('returned',
                                           (('Group', '/', None, ('dict', []),
                                             ('dict',
                                              [('valid_range', [0, 255]), ('number_of_lines_per_burst', 4), ('interleaving_id', 'BSQ'), ('coordinates', [])])),
                                            ('dict', [('type_code', 'IU2'), ('shape', (2, 4)), ('dtype', 'uint16'), ('byte_ranges', [])]))),
                               'arguments_unchanged': True},
 'metadata/with-attrs/suite-lines': {'outcome': ('returned',
                                                 (('Group', '/', None, ('dict', [('rows', ('Variable', ['rows'], [1, 2], ('dict', [])))]),
                                                   ('dict',
                                                    [('scan_id', 1), ('valid_range', [0, 255]), ('number_of_lines_per_burst', 4), ('interleaving_id', 'BSQ'),
                                                     ('coordinates', ['rows'])])),
                                                  ('dict',
                                                   [('type_code', 'IU2'), ('shape', (2, 4)), ('dtype', 'uint16'), ('byte_ranges', [(5, 21), (25, 41)])]))),
                                     'arguments_unchanged': True},
 'metadata/with-attrs/rich': {'outcome': ('returned',
                                          (('Group', '/', None,
                                            ('dict',
                                             [('rows', ('Variable', ['rows'], [1, 2], ('dict', []))),
                                              ('prf', ('Variable', ['rows'], [5, 6], ('dict', [('units', 'mHz')]))),
                                              ('sensor_acquisition_date',
                                               ('Variable', ['rows'],
                                                ('ndarray', 'datetime64[ns]', (2,), ['2020-10-01T12:37:42.451000000', '2020-10-02T12:37:42.451000000']),
                                                ('dict', []))),
                                              ('interleaving_id', ('Variable', ['rows'], ['line', 'line'], ('dict', []))),
                                              ('coordinates', ('Variable', ['rows'], ['c', 'c'], ('dict', [])))]),
                                            ('dict',
                                             [('scan_id', 2), ('valid_range', [0, 255]), ('number_of_lines_per_burst', 4), ('interleaving_id', 'BSQ'),
                                              ('coordinates', ['rows', 'prf', 'sensor_acquisition_date', 'interleaving_id', 'coordinates'])])),
                                           ('dict', [('type_code', 'IU2'), ('shape', (2, 4)), ('dtype', 'uint16'), ('byte_ranges', [(0, 8), (8, 16)])]))),
                              'arguments_unchanged': True},
 'metadata/with-attrs/no-data': {'outcome': ('raised', 'builtins', 'KeyError', "'data'"), 'arguments_unchanged': True},
 'metadata/with-attrs/no-data-second': {'outcome': ('raised', 'builtins', 'KeyError', "'data'"), 'arguments_unchanged': True},
 'metadata/with-attrs/no-stop': {'outcome': ('raised', 'builtins', 'KeyError', "'stop'"), 'arguments_unchanged': True},
 'metadata/with-attrs/no-start': {'outcome': ('raised', 'builtins', 'KeyError', "'start'"), 'arguments_unchanged': True},
 'metadata/with-attrs/data-not-mapping': {'outcome': ('raised', 'builtins', 'TypeError', "'int' object is not subscriptable"), 'arguments_unchanged': True},
 'metadata/with-attrs/bad-dates': {'outcome': ('raised', 'builtins', 'ValueError', 'Error parsing datetime string "yesterday" at position 0'),
                                   'arguments_unchanged': True},
 'metadata/with-attrs/line-none': {'outcome': ('raised', 'builtins', 'TypeError', "'NoneType' object is not subscriptable"), 'arguments_unchanged': True},
 'metadata/with-attrs/none': {'outcome': ('raised', 'builtins', 'TypeError', "'NoneType' object is not iterable"), 'arguments_unchanged': True},
 'metadata/with-attrs/tuple': {'outcome': ('returned',
                                           (('Group', '/', None, ('dict', []),
                                             ('dict',
                                              [('valid_range', [0, 255]), ('number_of_lines_per_burst', 4), ('interleaving_id', 'BSQ'), ('coordinates', [])])),
                                            ('dict', [('type_code', 'IU2'), ('shape', (2, 4)), ('dtype', 'uint16'), ('byte_ranges', [(1, 5)])]))),
                               'arguments_unchanged': True},
 'metadata/attrs-clash/suite1': {'outcome': ('returned',
                                             (('Group', '/', None, ('dict', []), ('dict', [('interleaving_id', 'hdr'), ('coordinates', [])])),
                                              ('dict', [('type_code', 'IU2'), ('shape', (2, 4)), ('dtype', 'uint16'), ('byte_ranges', [(1, 5), (6, 10)])]))),
                                 'arguments_unchanged': True},
 'metadata/attrs-clash/suite2': {'outcome': ('returned',
                                             (('Group', '/', None, ('dict', []), ('dict', [('interleaving_id', 'hdr'), ('coordinates', [])])),
                                              ('dict', [('type_code', 'IU2'), ('shape', (2, 4)), ('dtype', 'uint16'), ('byte_ranges', [(5, 21), (25, 41)])]))),
                                 'arguments_unchanged': True},
 'metadata/attrs-clash/empty': {'outcome': ('returned',
                                            (('Group', '/', None, ('dict', []), ('dict', [('interleaving_id', 'hdr'), ('coordinates', [])])),
                                             ('dict', [('type_code', 'IU2'), ('shape', (2, 4)), ('dtype', 'uint16'), ('byte_ranges', [])]))),
                                'arguments_unchanged': True},
 'metadata/attrs-clash/suite-lines': {'outcome': ('returned',
                                                  (('Group', '/', None, ('dict', [('rows', ('Variable', ['rows'], [1, 2], ('dict', [])))]),
                                                    ('dict', [('scan_id', 1), ('interleaving_id', 'hdr'), ('coordinates', ['rows'])])),
                                                   ('dict',
                                                    [('type_code', 'IU2'), ('shape', (2, 4)), ('dtype', 'uint16'), ('byte_ranges', [(5, 21), (25, 41)])]))),
                                      'arguments_unchanged': True},
 'metadata/attrs-clash/rich': {'outcome': ('returned',
                                           (('Group', '/', None,
                                             ('dict',
                                              [('rows', ('Variable', ['rows'], [1, 2], ('dict', []))),
                                               ('prf', ('Variable', ['rows'], [5, 6], ('dict', [('units', 'mHz')]))),
                                               ('sensor_acquisition_date',
                                                ('Variable', ['rows'],
                                                 ('ndarray', 'datetime64[ns]', (2,), ['2020-10-01T12:37:42.451000000', '2020-10-02T12:37:42.451000000']),
                                                 ('dict', []))),
                                               ('interleaving_id', ('Variable', ['rows'], ['line', 'line'], ('dict', []))),
                                               ('coordinates', ('Variable', ['rows'], ['c', 'c'], ('dict', [])))]),
                                             ('dict',
                                              [('scan_id', 2), ('interleaving_id', 'hdr'),
                                               ('coordinates', ['rows', 'prf', 'sensor_acquisition_date', 'interleaving_id', 'coordinates'])])),
                                            ('dict', [('type_code', 'IU2'), ('shape', (2, 4)), ('dtype', 'uint16'), ('byte_ranges', [(0, 8), (8, 16)])]))),
                               'arguments_unchanged': True},
 'metadata/attrs-clash/no-data': {'outcome': ('raised', 'builtins', 'KeyError', "'data'"), 'arguments_unchanged': True},
 'metadata/attrs-clash/no-data-second': {'outcome': ('raised', 'builtins', 'KeyError', "'data'"), 'arguments_unchanged': True},
 'metadata/attrs-clash/no-stop': {'outcome': ('raised', 'builtins', 'KeyError', "'stop'"), 'arguments_unchanged': True},
 'metadata/attrs-clash/no-start': {'outcome': ('raised', 'builtins', 'KeyError', "'start'"), 'arguments_unchanged': True},
 'metadata/attrs-clash/data-not-mapping': {'outcome': ('raised', 'builtins', 'TypeError', "'int' object is not subscriptable"), 'arguments_unchanged': True},
 'metadata/attrs-clash/bad-dates': {'outcome': ('raised', 'builtins', 'ValueError', 'Error parsing datetime string "yesterday" at position 0'),
                                    'arguments_unchanged': True},
 'metadata/attrs-clash/line-none': {'outcome': ('raised', 'builtins', 'TypeError', "'NoneType' object is not subscriptable"), 'arguments_unchanged': True},
 'metadata/attrs-clash/none': {'outcome': ('raised', 'builtins', 'TypeError', "'NoneType' object is not iterable"), 'arguments_unchanged': True},
 'metadata/attrs-clash/tuple': {'outcome': ('returned',
                                            (('Group', '/', None, ('dict', []), ('dict', [('interleaving_id', 'hdr'), ('coordinates', [])])),
                                             ('dict', [('type_code', 'IU2'), ('shape', (2, 4)), ('dtype', 'uint16'), ('byte_ranges', [(1, 5)])]))),
                                'arguments_unchanged': True},
 'metadata/bad-attrs/suite1': {'outcome': ('raised', 'builtins', 'TypeError', 'must be real number, not str'), 'arguments_unchanged': True},
 'metadata/bad-attrs/suite2': {'outcome': ('raised', 'builtins', 'TypeError', 'must be real number, not str'), 'arguments_unchanged': True},
 'metadata/bad-attrs/empty': {'outcome': ('raised', 'builtins', 'TypeError', 'must be real number, not str'), 'arguments_unchanged': True},
 'metadata/bad-attrs/suite-lines': {'outcome': ('raised', 'builtins', 'TypeError', 'must be real number, not str'), 'arguments_unchanged': True},
 'metadata/bad-attrs/rich': {'outcome': ('raised', 'builtins', 'TypeError', 'must be real number, not str'), 'arguments_unchanged': True},
 'metadata/bad-attrs/no-data': {'outcome': ('raised', 'builtins', 'KeyError', "'data'"), 'arguments_unchanged': True},
 'metadata/bad-attrs/no-data-second': {'outcome': ('raised', 'builtins', 'KeyError', "'data'"), 'arguments_unchanged': True},
 'metadata/bad-attrs/no-stop': {'outcome': ('raised', 'builtins', 'KeyError', "'stop'"), 'arguments_unchanged': True},
 'metadata/bad-attrs/no-start': {'outcome': ('raised', 'builtins', 'KeyError', "'start'"), 'arguments_unchanged': True},
 'metadata/bad-attrs/data-not-mapping': {'outcome': ('raised', 'builtins', 'TypeError', "'int' object is not subscriptable"), 'arguments_unchanged': True},
 'metadata/bad-attrs/bad-dates': {'outcome': ('raised', 'builtins', 'TypeError', 'must be real number, not str'), 'arguments_unchanged': True},
 'metadata/bad-attrs/line-none': {'outcome': ('raised', 'builtins', 'TypeError', "'NoneType' object is not subscriptable"), 'arguments_unchanged': True},
 'metadata/bad-attrs/none': {'outcome': ('raised', 'builtins', 'TypeError', "'NoneType' object is not iterable"), 'arguments_unchanged': True},
 'metadata/bad-attrs/tuple': {'outcome': ('raised', 'builtins', 'TypeError', 'must be real number, not str'), 'arguments_unchanged': True},
 'metadata/bad-attrs-and-code/suite1': {'outcome': ('raised', 'builtins', 'ValueError', 'unknown type code: XX'), 'arguments_unchanged': True},
 'metadata/bad-attrs-and-code/suite2': {'outcome': ('raised', 'builtins', 'ValueError', 'unknown type code: XX'), 'arguments_unchanged': True},
 'metadata/bad-attrs-and-code/empty': {'outcome': ('raised', 'builtins', 'ValueError', 'unknown type code: XX'), 'arguments_unchanged': True},
 'metadata/bad-attrs-and-code/suite-lines': {'outcome': ('raised', 'builtins', 'ValueError', 'unknown type code: XX'), 'arguments_unchanged': True},
 'metadata/bad-attrs-and-code/rich': {'outcome': ('raised', 'builtins', 'ValueError', 'unknown type code: XX'), 'arguments_unchanged': True},
 'metadata/bad-attrs-and-code/no-data': {'outcome': ('raised', 'builtins', 'KeyError', "'data'"), 'arguments_unchanged': True},
 'metadata/bad-attrs-and-code/no-data-second': {'outcome': ('raised', 'builtins', 'KeyError', "'data'"), 'arguments_unchanged': True},
 'metadata/bad-attrs-and-code/no-stop': {'outcome': ('raised', 'builtins', 'KeyError', "'stop'"), 'arguments_unchanged': True},
 'metadata/bad-attrs-and-code/no-start': {'outcome': ('raised', 'builtins', 'KeyError', "'start'"), 'arguments_unchanged': True},
 'metadata/bad-attrs-and-code/data-not-mapping': {'outcome': ('raised', 'builtins', 'TypeError', "'int' object is not subscriptable"),
                                                  'arguments_unchanged': True},
 'metadata/bad-attrs-and-code/bad-dates': {'outcome': ('raised', 'builtins', 'ValueError', 'unknown type code: XX'), 'arguments_unchanged': True},
 'metadata/bad-attrs-and-code/line-none': {'outcome': ('raised', 'builtins', 'TypeError', "'NoneType' object is not subscriptable"),
                                           'arguments_unchanged': True},
 'metadata/bad-attrs-and-code/none': {'outcome': ('raised', 'builtins', 'TypeError', "'NoneType' object is not iterable"), 'arguments_unchanged': True},
 'metadata/bad-attrs-and-code/tuple': {'outcome': ('raised', 'builtins', 'ValueError', 'unknown type code: XX'), 'arguments_unchanged': True},
 'metadata/no-locators/suite1': {'outcome': ('raised', 'builtins', 'KeyError', "'prefix_suffix_data_locators'"), 'arguments_unchanged': True},
 'metadata/no-locators/suite2': {'outcome': ('raised', 'builtins', 'KeyError', "'prefix_suffix_data_locators'"), 'arguments_unchanged': True},
 'metadata/no-locators/empty': {'outcome': ('raised', 'builtins', 'KeyError', "'prefix_suffix_data_locators'"), 'arguments_unchanged': True},
 'metadata/no-locators/suite-lines': {'outcome': ('raised', 'builtins', 'KeyError', "'prefix_suffix_data_locators'"), 'arguments_unchanged': True},
 'metadata/no-locators/rich': {'outcome': ('raised', 'builtins', 'KeyError', "'prefix_suffix_data_locators'"), 'arguments_unchanged': True},
 'metadata/no-locators/no-data': {'outcome': ('raised', 'builtins', 'KeyError', "'data'"), 'arguments_unchanged': True},
 'metadata/no-locators/no-data-second': {'outcome': ('raised', 'builtins', 'KeyError', "'data'"), 'arguments_unchanged': True},
 'metadata/no-locators/no-stop': {'outcome': ('raised', 'builtins', 'KeyError', "'stop'"), 'arguments_unchanged': True},
 'metadata/no-locators/no-start': {'outcome': ('raised', 'builtins', 'KeyError', "'start'"), 'arguments_unchanged': True},
 'metadata/no-locators/data-not-mapping': {'outcome': ('raised', 'builtins', 'TypeError', "'int' object is not subscriptable"), 'arguments_unchanged': True},
 'metadata/no-locators/bad-dates': {'outcome': ('raised', 'builtins', 'KeyError', "'prefix_suffix_data_locators'"), 'arguments_unchanged': True},
 'metadata/no-locators/line-none': {'outcome': ('raised', 'builtins', 'TypeError', "'NoneType' object is not subscriptable"), 'arguments_unchanged': True},
 'metadata/no-locators/none': {'outcome': ('raised', 'builtins', 'TypeError', "'NoneType' object is not iterable"), 'arguments_unchanged': True},
 'metadata/no-locators/tuple': {'outcome': ('raised', 'builtins', 'KeyError', "'prefix_suffix_data_locators'"), 'arguments_unchanged': True},
 'metadata/no-code/suite1': {'outcome': ('raised', 'builtins', 'KeyError', "'sar_data_format_type_code'"), 'arguments_unchanged': True},
 'metadata/no-code/suite2': {'outcome': ('raised', 'builtins', 'KeyError', "'sar_data_format_type_code'"), 'arguments_unchanged': True},
 'metadata/no-code/empty': {'outcome': ('raised', 'builtins', 'KeyError', "'sar_data_format_type_code'"), 'arguments_unchanged': True},
 'metadata/no-code/suite-lines': {'outcome': ('raised', 'builtins', 'KeyError', "'sar_data_format_type_code'"), 'arguments_unchanged': True},
 'metadata/no-code/rich': {'outcome': ('raised', 'builtins', 'KeyError', "'sar_data_format_type_code'"), 'arguments_unchanged': True},
 'metadata/no-code/no-data': {'outcome': ('raised', 'builtins', 'KeyError', "'data'"), 'arguments_unchanged': True},
 'metadata/no-code/no-data-second': {'outcome': ('raised', 'builtins', 'KeyError', "'data'"), 'arguments_unchanged': True},
 'metadata/no-code/no-stop': {'outcome': ('raised', 'builtins', 'KeyError', "'stop'"), 'arguments_unchanged': True},
 'metadata/no-code/no-start': {'outcome': ('raised', 'builtins', 'KeyError', "'start'"), 'arguments_unchanged': True},
 'metadata/no-code/data-not-mapping': {'outcome': ('raised', 'builtins', 'TypeError', "'int' object is not subscriptable"), 'arguments_unchanged': True},
 'metadata/no-code/bad-dates': {'outcome': ('raised', 'builtins', 'KeyError', "'sar_data_format_type_code'"), 'arguments_unchanged': True},
 'metadata/no-code/line-none': {'outcome': ('raised', 'builtins', 'TypeError', "'NoneType' object is not subscriptable"), 'arguments_unchanged': True},
 'metadata/no-code/none': {'outcome': ('raised', 'builtins', 'TypeError', "'NoneType' object is not iterable"), 'arguments_unchanged': True},
 'metadata/no-code/tuple': {'outcome': ('raised', 'builtins', 'KeyError', "'sar_data_format_type_code'"), 'arguments_unchanged': True},
 'metadata/no-shape-section/suite1': {'outcome': ('raised', 'builtins', 'KeyError', "'sar_related_data_in_the_record'"), 'arguments_unchanged': True},
 'metadata/no-shape-section/suite2': {'outcome': ('raised', 'builtins', 'KeyError', "'sar_related_data_in_the_record'"), 'arguments_unchanged': True},
 'metadata/no-shape-section/empty': {'outcome': ('raised', 'builtins', 'KeyError', "'sar_related_data_in_the_record'"), 'arguments_unchanged': True},
 'metadata/no-shape-section/suite-lines': {'outcome': ('raised', 'builtins', 'KeyError', "'sar_related_data_in_the_record'"), 'arguments_unchanged': True},
 'metadata/no-shape-section/rich': {'outcome': ('raised', 'builtins', 'KeyError', "'sar_related_data_in_the_record'"), 'arguments_unchanged': True},
 'metadata/no-shape-section/no-data': {'outcome': ('raised', 'builtins', 'KeyError', "'data'"), 'arguments_unchanged': True},
 'metadata/no-shape-section/no-data-second': {'outcome': ('raised', 'builtins', 'KeyError', "'data'"), 'arguments_unchanged': True},
 'metadata/no-shape-section/no-stop': {'outcome': ('raised', 'builtins', 'KeyError', "'stop'"), 'arguments_unchanged': True},
 'metadata/no-shape-section/no-start': {'outcome': ('raised', 'builtins', 'KeyError', "'start'"), 'arguments_unchanged': True},
 'metadata/no-shape-section/data-not-mapping': {'outcome': ('raised', 'builtins', 'TypeError', "'int' object is not subscriptable"),
                                                'arguments_unchanged': True},
 'metadata/no-shape-section/bad-dates': {'outcome': ('raised', 'builtins', 'KeyError', "'sar_related_data_in_the_record'"), 'arguments_unchanged': True},
 'metadata/no-shape-section/line-none': {'outcome': ('raised', 'builtins', 'TypeError', "'NoneType' object is not subscriptable"), 'arguments_unchanged': True},
 'metadata/no-shape-section/none': {'outcome': ('raised', 'builtins', 'TypeError', "'NoneType' object is not iterable"), 'arguments_unchanged': True},
 'metadata/no-shape-section/tuple': {'outcome': ('raised', 'builtins', 'KeyError', "'sar_related_data_in_the_record'"), 'arguments_unchanged': True},
 'metadata/no-lines/suite1': {'outcome': ('raised', 'builtins', 'KeyError', "'number_of_lines_per_dataset'"), 'arguments_unchanged': True},
 'metadata/no-lines/suite2': {'outcome': ('raised', 'builtins', 'KeyError', "'number_of_lines_per_dataset'"), 'arguments_unchanged': True},
 'metadata/no-lines/empty': {'outcome': ('raised', 'builtins', 'KeyError', "'number_of_lines_per_dataset'"), 'arguments_unchanged': True},
 'metadata/no-lines/suite-lines': {'outcome': ('raised', 'builtins', 'KeyError', "'number_of_lines_per_dataset'"), 'arguments_unchanged': True},
 'metadata/no-lines/rich': {'outcome': ('raised', 'builtins', 'KeyError', "'number_of_lines_per_dataset'"), 'arguments_unchanged': True},
 'metadata/no-lines/no-data': {'outcome': ('raised', 'builtins', 'KeyError', "'data'"), 'arguments_unchanged': True},
 'metadata/no-lines/no-data-second': {'outcome': ('raised', 'builtins', 'KeyError', "'data'"), 'arguments_unchanged': True},
 'metadata/no-lines/no-stop': {'outcome': ('raised', 'builtins', 'KeyError', "'stop'"), 'arguments_unchanged': True},
 'metadata/no-lines/no-start': {'outcome': ('raised', 'builtins', 'KeyError', "'start'"), 'arguments_unchanged': True},
 'metadata/no-lines/data-not-mapping': {'outcome': ('raised', 'builtins', 'TypeError', "'int' object is not subscriptable"), 'arguments_unchanged': True},
 'metadata/no-lines/bad-dates': {'outcome': ('raised', 'builtins', 'KeyError', "'number_of_lines_per_dataset'"), 'arguments_unchanged': True},
 'metadata/no-lines/line-none': {'outcome': ('raised', 'builtins', 'TypeError', "'NoneType' object is not subscriptable"), 'arguments_unchanged': True},
 'metadata/no-lines/none': {'outcome': ('raised', 'builtins', 'TypeError', "'NoneType' object is not iterable"), 'arguments_unchanged': True},
 'metadata/no-lines/tuple': {'outcome': ('raised', 'builtins', 'KeyError', "'number_of_lines_per_dataset'"), 'arguments_unchanged': True},
 'metadata/no-groups/suite1': {'outcome': ('raised', 'builtins', 'KeyError', "'number_of_data_groups_per_line'"), 'arguments_unchanged': True},
 'metadata/no-groups/suite2': {'outcome': ('raised', 'builtins', 'KeyError', "'number_of_data_groups_per_line'"), 'arguments_unchanged': True},
 'metadata/no-groups/empty': {'outcome': ('raised', 'builtins', 'KeyError', "'number_of_data_groups_per_line'"), 'arguments_unchanged': True},
 'metadata/no-groups/suite-lines': {'outcome': ('raised', 'builtins', 'KeyError', "'number_of_data_groups_per_line'"), 'arguments_unchanged': True},
 'metadata/no-groups/rich': {'outcome': ('raised', 'builtins', 'KeyError', "'number_of_data_groups_per_line'"), 'arguments_unchanged': True},
 'metadata/no-groups/no-data': {'outcome': ('raised', 'builtins', 'KeyError', "'data'"), 'arguments_unchanged': True},
 'metadata/no-groups/no-data-second': {'outcome': ('raised', 'builtins', 'KeyError', "'data'"), 'arguments_unchanged': True},
 'metadata/no-groups/no-stop': {'outcome': ('raised', 'builtins', 'KeyError', "'stop'"), 'arguments_unchanged': True},
 'metadata/no-groups/no-start': {'outcome': ('raised', 'builtins', 'KeyError', "'start'"), 'arguments_unchanged': True},
 'metadata/no-groups/data-not-mapping': {'outcome': ('raised', 'builtins', 'TypeError', "'int' object is not subscriptable"), 'arguments_unchanged': True},
 'metadata/no-groups/bad-dates': {'outcome': ('raised', 'builtins', 'KeyError', "'number_of_data_groups_per_line'"), 'arguments_unchanged': True},
 'metadata/no-groups/line-none': {'outcome': ('raised', 'builtins', 'TypeError', "'NoneType' object is not subscriptable"), 'arguments_unchanged': True},
 'metadata/no-groups/none': {'outcome': ('raised', 'builtins', 'TypeError', "'NoneType' object is not iterable"), 'arguments_unchanged': True},
 'metadata/no-groups/tuple': {'outcome': ('raised', 'builtins', 'KeyError', "'number_of_data_groups_per_line'"), 'arguments_unchanged': True},
 'metadata/empty/suite1': {'outcome': ('raised', 'builtins', 'KeyError', "'prefix_suffix_data_locators'"), 'arguments_unchanged': True},
 'metadata/empty/suite2': {'outcome': ('raised', 'builtins', 'KeyError', "'prefix_suffix_data_locators'"), 'arguments_unchanged': True},
 'metadata/empty/empty': {'outcome': ('raised', 'builtins', 'KeyError', "'prefix_suffix_data_locators'"), 'arguments_unchanged': True},
 'metadata/empty/suite-lines': {'outcome': ('raised', 'builtins', 'KeyError', "'prefix_suffix_data_locators'"), 'arguments_unchanged': True},
 'metadata/empty/rich': {'outcome': ('raised', 'builtins', 'KeyError', "'prefix_suffix_data_locators'"), 'arguments_unchanged': True},
 'metadata/empty/no-data': {'outcome': ('raised', 'builtins', 'KeyError', "'data'"), 'arguments_unchanged': True},
 'metadata/empty/no-data-second': {'outcome': ('raised', 'builtins', 'KeyError', "'data'"), 'arguments_unchanged': True},
 'metadata/empty/no-stop': {'outcome': ('raised', 'builtins', 'KeyError', "'stop'"), 'arguments_unchanged': True},
 'metadata/empty/no-start': {'outcome': ('raised', 'builtins', 'KeyError', "'start'"), 'arguments_unchanged': True},
 'metadata/empty/data-not-mapping': {'outcome': ('raised', 'builtins', 'TypeError', "'int' object is not subscriptable"), 'arguments_unchanged': True},
 'metadata/empty/bad-dates': {'outcome': ('raised', 'builtins', 'KeyError', "'prefix_suffix_data_locators'"), 'arguments_unchanged': True},
 'metadata/empty/line-none': {'outcome': ('raised', 'builtins', 'TypeError', "'NoneType' object is not subscriptable"), 'arguments_unchanged': True},
 'metadata/empty/none': {'outcome': ('raised', 'builtins', 'TypeError', "'NoneType' object is not iterable"), 'arguments_unchanged': True},
 'metadata/empty/tuple': {'outcome': ('raised', 'builtins', 'KeyError', "'prefix_suffix_data_locators'"), 'arguments_unchanged': True},
 'metadata/none/suite1': {'outcome': ('raised', 'builtins', 'TypeError', "'NoneType' object is not subscriptable"), 'arguments_unchanged': True},
 'metadata/none/suite2': {'outcome': ('raised', 'builtins', 'TypeError', "'NoneType' object is not subscriptable"), 'arguments_unchanged': True},
 'metadata/none/empty': {'outcome': ('raised', 'builtins', 'TypeError', "'NoneType' object is not subscriptable"), 'arguments_unchanged': True},
 'metadata/none/suite-lines': {'outcome': ('raised', 'builtins', 'TypeError', "'NoneType' object is not subscriptable"), 'arguments_unchanged': True},
 'metadata/none/rich': {'outcome': ('raised', 'builtins', 'TypeError', "'NoneType' object is not subscriptable"), 'arguments_unchanged': True},
 'metadata/none/no-data': {'outcome': ('raised', 'builtins', 'KeyError', "'data'"), 'arguments_unchanged': True},
 'metadata/none/no-data-second': {'outcome': ('raised', 'builtins', 'KeyError', "'data'"), 'arguments_unchanged': True},
 'metadata/none/no-stop': {'outcome': ('raised', 'builtins', 'KeyError', "'stop'"), 'arguments_unchanged': True},
 'metadata/none/no-start': {'outcome': ('raised', 'builtins', 'KeyError', "'start'"), 'arguments_unchanged': True},
 'metadata/none/data-not-mapping': {'outcome': ('raised', 'builtins', 'TypeError', "'int' object is not subscriptable"), 'arguments_unchanged': True},
 'metadata/none/bad-dates': {'outcome': ('raised', 'builtins', 'TypeError', "'NoneType' object is not subscriptable"), 'arguments_unchanged': True},
 'metadata/none/line-none': {'outcome': ('raised', 'builtins', 'TypeError', "'NoneType' object is not subscriptable"), 'arguments_unchanged': True},
 'metadata/none/none': {'outcome': ('raised', 'builtins', 'TypeError', "'NoneType' object is not iterable"), 'arguments_unchanged': True},
 'metadata/none/tuple': {'outcome': ('raised', 'builtins', 'TypeError', "'NoneType' object is not subscriptable"), 'arguments_unchanged': True},
 'metadata/spied/with-attrs/rich': {'outcome': ('returned',
                                                (('Group', '/', None,
                                                  ('dict',
                                                   [('rows', ('Variable', ['rows'], [1, 2], ('dict', []))),
                                                    ('prf', ('Variable', ['rows'], [5, 6], ('dict', [('units', 'mHz')]))),
                                                    ('sensor_acquisition_date',
                                                     ('Variable', ['rows'],
                                                      ('ndarray', 'datetime64[ns]', (2,), ['2020-10-01T12:37:42.451000000', '2020-10-02T12:37:42.451000000']),
                                                      ('dict', []))),
                                                    ('interleaving_id', ('Variable', ['rows'], ['line', 'line'], ('dict', []))),
                                                    ('coordinates', ('Variable', ['rows'], ['c', 'c'], ('dict', [])))]),
                                                  ('dict',
                                                   [('scan_id', 2), ('valid_range', [0, 255]), ('number_of_lines_per_burst', 4), ('interleaving_id', 'BSQ'),
                                                    ('coordinates', ['rows', 'prf', 'sensor_acquisition_date', 'interleaving_id', 'coordinates'])])),
                                                 ('dict', [('type_code', 'IU2'), ('shape', (2, 4)), ('dtype', 'uint16'), ('byte_ranges', [(0, 8), (8, 16)])]))),
                                    'arguments_unchanged': True,
                                    'calls': [('extract_format_type', 1, []), ('extract_shape', 1, []), ('extract_attrs', 1, []), ('dissoc', 2, []),
                                              ('rename', 1, ['translations']), ('transform_line_metadata', 1, []), ('remove_spares', 1, []), ('dissoc', 2, []),
                                              ('separate_attrs', 1, []), ('separate_attrs', 1, []), ('separate_attrs', 1, []), ('separate_attrs', 1, []),
                                              ('separate_attrs', 1, []), ('separate_attrs', 1, []), ('deduplicate_attrs', 2, []), ('apply_overrides', 2, []),
                                              ('rename', 1, ['translations']), ('as_group', 1, [])]},
 'metadata/spied/F*4/rich': {'outcome': ('raised', 'builtins', 'ValueError', 'unknown type code: F*4'),
                             'arguments_unchanged': True,
                             'calls': [('extract_format_type', 1, []), ('extract_shape', 1, [])]},
 'metadata/spied/IU2/no-data': {'outcome': ('raised', 'builtins', 'KeyError', "'data'"), 'arguments_unchanged': True, 'calls': []},
 'metadata/spied/bad-attrs/bad-dates': {'outcome': ('raised', 'builtins', 'TypeError', 'must be real number, not str'),
                                        'arguments_unchanged': True,
                                        'calls': [('extract_format_type', 1, []), ('extract_shape', 1, []), ('extract_attrs', 1, []), ('dissoc', 2, [])]},
 'metadata/spied/bad-attrs-and-code/no-data': {'outcome': ('raised', 'builtins', 'KeyError', "'data'"), 'arguments_unchanged': True, 'calls': []},
 'metadata/spied/no-lines/suite1': {'outcome': ('raised', 'builtins', 'KeyError', "'number_of_lines_per_dataset'"),
                                    'arguments_unchanged': True,
                                    'calls': [('extract_format_type', 1, []), ('extract_shape', 1, [])]},
 'metadata/spied/IU2/bad-dates': {'outcome': ('raised', 'builtins', 'ValueError', 'Error parsing datetime string "yesterday" at position 0'),
                                  'arguments_unchanged': True,
                                  'calls': [('extract_format_type', 1, []), ('extract_shape', 1, []), ('extract_attrs', 1, []), ('dissoc', 2, []),
                                            ('rename', 1, ['translations']), ('transform_line_metadata', 1, []), ('remove_spares', 1, []), ('dissoc', 2, []),
                                            ('separate_attrs', 1, []), ('deduplicate_attrs', 2, []), ('apply_overrides', 2, [])]},
 'metadata/replaced-dtypes/F*4': {'outcome': ('returned',
                                              (('Group', '/', None, ('dict', []), ('dict', [('coordinates', [])])),
                                               ('dict', [('type_code', 'F*4'), ('shape', (6, 3)), ('dtype', 'float32'), ('byte_ranges', [(1, 5), (6, 10)])]))),
                                  'arguments_unchanged': True},
 'metadata/replaced-dtypes/IU2': {'outcome': ('returned',
                                              (('Group', '/', None, ('dict', []), ('dict', [('coordinates', [])])),
                                               ('dict', [('type_code', 'IU2'), ('shape', (2, 4)), ('dtype', '0'), ('byte_ranges', [(1, 5), (6, 10)])]))),
                                  'arguments_unchanged': True},
 'metadata/replaced-dtypes/C*8': {'outcome': ('raised', 'builtins', 'ValueError', 'unknown type code: C*8'), 'arguments_unchanged': True},
 'metadata/replaced-dtypes/bad-attrs-and-code': {'outcome': ('raised', 'builtins', 'TypeError', 'must be real number, not str'), 'arguments_unchanged': True},
 'metadata/dtypes': ('dict', [('C*8', ('npdtype', 'complex64')), ('IU2', ('npdtype', 'uint16'))]),
 'real/10/C*8/lines': {'outcome': ('returned',
                                   ('Group', '/', None,
                                    ('dict',
                                     [('rows', ('Variable', ['rows'], [1, 2, 3], ('dict', []))),
                                      ('sensor_acquisition_date',
                                       ('Variable', ['rows'],
                                        ('ndarray', 'datetime64[ns]', (3,),
                                         ['2020-02-10T00:20:34.570000000', '2020-03-18T00:41:09.137000000', '2020-04-24T01:01:43.704000000']),
                                        ('dict', []))),
                                      ('prf', ('Variable', ['rows'], [93, 9, 22], ('dict', [('units', 'mHz')]))),
                                      ('chirp_length', ('Variable', ['rows'], [17, 30, 43], ('dict', [('units', 'ns')]))),
                                      ('chirp_constant_coefficient', ('Variable', ['rows'], [24, 37, 50], ('dict', [('units', 'Hz')]))),
                                      ('chirp_linear_coefficient', ('Variable', ['rows'], [31, 44, 57], ('dict', [('units', 'Hz/µs')]))),
                                      ('chirp_quadratic_coefficient', ('Variable', ['rows'], [38, 51, 64], ('dict', [('units', 'Hz/µs^2')]))),
                                      ('sensor_acquisition_date_microseconds',
                                       ('Variable', ['rows'],
                                        ('ndarray', 'datetime64[ns]', (3,),
                                         ['2020-02-12T05:41:13.528372000', '2020-03-20T21:11:48.103233000', '2020-04-27T12:42:22.678094000']),
                                        ('dict', []))),
                                      ('receiver_gain', ('Variable', ['rows'], [59, 72, 85], ('dict', [('units', 'dB')]))),
                                      ('invalid_line_flag', ('Variable', ['rows'], [True, True, True], ('dict', []))),
                                      ('elevation_angle_at_nadir_of_antenna',
                                       ('Variable', ['rows'],
                                        [('dict', [('electronic', (73, ('dict', [('units', 'deg')]))), ('mechanic', (80, ('dict', [('units', 'deg')])))]),
                                         ('dict', [('electronic', (86, ('dict', [('units', 'deg')]))), ('mechanic', (93, ('dict', [('units', 'deg')])))]),
                                         ('dict', [('electronic', (2, ('dict', [('units', 'deg')]))), ('mechanic', (9, ('dict', [('units', 'deg')])))])],
                                        ('dict', []))),
                                      ('antenna_squint_angle',
                                       ('Variable', ['rows'],
                                        [('dict', [('electronic', (87, ('dict', [('units', 'deg')]))), ('mechanic', (94, ('dict', [('units', 'deg')])))]),
                                         ('dict', [('electronic', (3, ('dict', [('units', 'deg')]))), ('mechanic', (10, ('dict', [('units', 'deg')])))]),
                                         ('dict', [('electronic', (16, ('dict', [('units', 'deg')]))), ('mechanic', (23, ('dict', [('units', 'deg')])))])],
                                        ('dict', []))),
                                      ('slant_range_to_first_data_sample', ('Variable', ['rows'], [4, 17, 30], ('dict', [('units', 'm')]))),
                                      ('data_record_window_position', ('Variable', ['rows'], [11, 24, 37], ('dict', [('units', 'ns')]))),
                                      ('platform_latitude', ('Variable', ['rows'], [3.2e-05, 4.4999999999999996e-05, 5.8e-05], ('dict', [('units', 'deg')]))),
                                      ('platform_longitude', ('Variable', ['rows'], [3.9e-05, 5.2e-05, 6.5e-05], ('dict', [('units', 'deg')]))),
                                      ('platform_altitude', ('Variable', ['rows'], [46, 59, 72], ('dict', [('units', 'deg')]))),
                                      ('platform_ground_speed', ('Variable', ['rows'], [53, 66, 79], ('dict', [('units', 'cm/s')]))),
                                      ('platform_velocity',
                                       ('Variable', ['rows'],
                                        [('dict',
                                          [('x', (60, ('dict', [('units', 'cm/s')]))), ('y', (67, ('dict', [('units', 'cm/s')]))),
                                           ('z', (74, ('dict', [('units', 'cm/s')])))]),
                                         ('dict',
                                          [('x', (73, ('dict', [('units', 'cm/s')]))), ('y', (80, ('dict', [('units', 'cm/s')]))),
                                           ('z', (87, ('dict', [('units', 'cm/s')])))]),
                                         ('dict',
                                          [('x', (86, ('dict', [('units', 'cm/s')]))), ('y', (93, ('dict', [('units', 'cm/s')]))),
                                           ('z', (3, ('dict', [('units', 'cm/s')])))])],
                                        ('dict', []))),
                                      ('platform_acceleration',
                                       ('Variable', ['rows'],
                                        [('dict',
                                          [('x', (81, ('dict', [('units', 'cm/s^2')]))), ('y', (88, ('dict', [('units', 'cm/s^2')]))),
                                           ('z', (95, ('dict', [('units', 'cm/s^2')])))]),
                                         ('dict',
                                          [('x', (94, ('dict', [('units', 'cm/s^2')]))), ('y', (4, ('dict', [('units', 'cm/s^2')]))),
                                           ('z', (11, ('dict', [('units', 'cm/s^2')])))]),
                                         ('dict',
                                          [('x', (10, ('dict', [('units', 'cm/s^2')]))), ('y', (17, ('dict', [('units', 'cm/s^2')]))),
                                           ('z', (24, ('dict', [('units', 'cm/s^2')])))])],
                                        ('dict', []))),
                                      ('platform_track_angle',
                                       ('Variable', ['rows'], [4.9999999999999996e-06, 1.8e-05, 3.1e-05], ('dict', [('units', 'deg')]))),
                                      ('platform_true_track_angle',
                                       ('Variable', ['rows'], [1.2e-05, 2.4999999999999998e-05, 3.7999999999999995e-05], ('dict', [('units', 'deg')]))),
                                      ('platform_attitude',
                                       ('Variable', ['rows'],
                                        [('dict',
                                          [('pitch', (1.8999999999999998e-05, ('dict', [('units', 'deg')]))), ('roll', (2.6e-05, ('dict', [('units', 'deg')]))),
                                           ('yaw', (3.2999999999999996e-05, ('dict', [('units', 'deg')])))]),
                                         ('dict',
                                          [('pitch', (3.2e-05, ('dict', [('units', 'deg')]))), ('roll', (3.9e-05, ('dict', [('units', 'deg')]))),
                                           ('yaw', (4.6e-05, ('dict', [('units', 'deg')])))]),
                                         ('dict',
                                          [('pitch', (4.4999999999999996e-05, ('dict', [('units', 'deg')]))), ('roll', (5.2e-05, ('dict', [('units', 'deg')]))),
                                           ('yaw', (5.9e-05, ('dict', [('units', 'deg')])))])],
                                        ('dict', []))),
                                      ('latitude_of_first_pixel',
                                       ('Variable', ['rows'], [3.9999999999999996e-05, 5.3e-05, 6.599999999999999e-05], ('dict', [('units', 'deg')]))),
                                      ('latitude_of_center_pixel',
                                       ('Variable', ['rows'], [4.7e-05, 5.9999999999999995e-05, 7.3e-05], ('dict', [('units', 'deg')]))),
                                      ('latitude_of_last_pixel',
                                       ('Variable', ['rows'], [5.4e-05, 6.7e-05, 7.999999999999999e-05], ('dict', [('units', 'deg')]))),
                                      ('longitude_of_first_pixel', ('Variable', ['rows'], [6.1e-05, 7.4e-05, 8.7e-05], ('dict', [('units', 'deg')]))),
                                      ('longitude_of_center_pixel',
                                       ('Variable', ['rows'], [6.8e-05, 8.099999999999999e-05, 9.4e-05], ('dict', [('units', 'deg')]))),
                                      ('longitude_of_last_pixel', ('Variable', ['rows'], [7.5e-05, 8.8e-05, 4e-06], ('dict', [('units', 'deg')]))),
                                      ('burst_number', ('Variable', ['rows'], [82, 95, 11], ('dict', []))),
                                      ('line_number_in_this_burst', ('Variable', ['rows'], [89, 5, 18], ('dict', [])))]),
                                    ('dict',
                                     [('sar_image_data_record_index', 1), ('sensor_parameters_update_flag', 51),
                                      ('sar_channel_id', ('subclass', 'EnumInteger', 0)), ('sar_channel_code', ('subclass', 'EnumInteger', 79)),
                                      ('transmitted_pulse_polarization', 'horizontal'), ('received_pulse_polarization', ('subclass', 'EnumInteger', 86)),
                                      ('scan_id', 3), ('onboard_range_compressed_flag', False), ('chirp_type_designator', ('subclass', 'EnumInteger', 10)),
                                      ('platform_position_parameters_update_flag', ('subclass', 'EnumInteger', 25))]))),
                       'arguments_unchanged': True},
 'real/10/C*8/metadata': {'outcome': ('returned',
                                      (('Group', '/', None,
                                        ('dict',
                                         [('rows', ('Variable', ['rows'], [1, 2, 3], ('dict', []))),
                                          ('sensor_acquisition_date',
                                           ('Variable', ['rows'],
                                            ('ndarray', 'datetime64[ns]', (3,),
                                             ['2020-02-10T00:20:34.570000000', '2020-03-18T00:41:09.137000000', '2020-04-24T01:01:43.704000000']),
                                            ('dict', []))),
                                          ('prf', ('Variable', ['rows'], [93, 9, 22], ('dict', [('units', 'mHz')]))),
                                          ('chirp_length', ('Variable', ['rows'], [17, 30, 43], ('dict', [('units', 'ns')]))),
                                          ('chirp_constant_coefficient', ('Variable', ['rows'], [24, 37, 50], ('dict', [('units', 'Hz')]))),
                                          ('chirp_linear_coefficient', ('Variable', ['rows'], [31, 44, 57], ('dict', [('units', 'Hz/µs')]))),
                                          ('chirp_quadratic_coefficient', ('Variable', ['rows'], [38, 51, 64], ('dict', [('units', 'Hz/µs^2')]))),
                                          ('sensor_acquisition_date_microseconds',
                                           ('Variable', ['rows'],
                                            ('ndarray', 'datetime64[ns]', (3,),
                                             ['2020-02-12T05:41:13.528372000', '2020-03-20T21:11:48.103233000', '2020-04-27T12:42:22.678094000']),
                                            ('dict', []))),
                                          ('receiver_gain', ('Variable', ['rows'], [59, 72, 85], ('dict', [('units', 'dB')]))),
                                          ('invalid_line_flag', ('Variable', ['rows'], [True, True, True], ('dict', []))),
                                          ('elevation_angle_at_nadir_of_antenna',
                                           ('Variable', ['rows'],
                                            [('dict', [('electronic', (73, ('dict', [('units', 'deg')]))), ('mechanic', (80, ('dict', [('units', 'deg')])))]),
                                             ('dict', [('electronic', (86, ('dict', [('units', 'deg')]))), ('mechanic', (93, ('dict', [('units', 'deg')])))]),
                                             ('dict', [('electronic', (2, ('dict', [('units', 'deg')]))), ('mechanic', (9, ('dict', [('units', 'deg')])))])],
                                            ('dict', []))),
                                          ('antenna_squint_angle',
                                           ('Variable', ['rows'],
                                            [('dict', [('electronic', (87, ('dict', [('units', 'deg')]))), ('mechanic', (94, ('dict', [('units', 'deg')])))]),
                                             ('dict', [('electronic', (3, ('dict', [('units', 'deg')]))), ('mechanic', (10, ('dict', [('units', 'deg')])))]),
                                             ('dict', [('electronic', (16, ('dict', [('units', 'deg')]))), ('mechanic', (23, ('dict', [('units', 'deg')])))])],
                                            ('dict', []))),
                                          ('slant_range_to_first_data_sample', ('Variable', ['rows'], [4, 17, 30], ('dict', [('units', 'm')]))),
                                          ('data_record_window_position', ('Variable', ['rows'], [11, 24, 37], ('dict', [('units', 'ns')]))),
                                          ('platform_latitude',
                                           ('Variable', ['rows'], [3.2e-05, 4.4999999999999996e-05, 5.8e-05], ('dict', [('units', 'deg')]))),
                                          ('platform_longitude', ('Variable', ['rows'], [3.9e-05, 5.2e-05, 6.5e-05], ('dict', [('units', 'deg')]))),
                                          ('platform_altitude', ('Variable', ['rows'], [46, 59, 72], ('dict', [('units', 'deg')]))),
                                          ('platform_ground_speed', ('Variable', ['rows'], [53, 66, 79], ('dict', [('units', 'cm/s')]))),
                                          ('platform_velocity',
                                           ('Variable', ['rows'],
                                            [('dict',
                                              [('x', (60, ('dict', [('units', 'cm/s')]))), ('y', (67, ('dict', [('units', 'cm/s')]))),
                                               ('z', (74, ('dict', [('units', 'cm/s')])))]),
                                             ('dict',
                                              [('x', (73, ('dict', [('units', 'cm/s')]))), ('y', (80, ('dict', [('units', 'cm/s')]))),
                                               ('z', (87, ('dict', [('units', 'cm/s')])))]),
                                             ('dict',
                                              [('x', (86, ('dict', [('units', 'cm/s')]))), ('y', (93, ('dict', [('units', 'cm/s')]))),
                                               ('z', (3, ('dict', [('units', 'cm/s')])))])],
                                            ('dict', []))),
                                          ('platform_acceleration',
                                           ('Variable', ['rows'],
                                            [('dict',
                                              [('x', (81, ('dict', [('units', 'cm/s^2')]))), ('y', (88, ('dict', [('units', 'cm/s^2')]))),
                                               ('z', (95, ('dict', [('units', 'cm/s^2')])))]),
                                             ('dict',
                                              [('x', (94, ('dict', [('units', 'cm/s^2')]))), ('y', (4, ('dict', [('units', 'cm/s^2')]))),
                                               ('z', (11, ('dict', [('units', 'cm/s^2')])))]),
                                             ('dict',
                                              [('x', (10, ('dict', [('units', 'cm/s^2')]))), ('y', (17, ('dict', [('units', 'cm/s^2')]))),
                                               ('z', (24, ('dict', [('units', 'cm/s^2')])))])],
                                            ('dict', []))),
                                          ('platform_track_angle',
                                           ('Variable', ['rows'], [4.9999999999999996e-06, 1.8e-05, 3.1e-05], ('dict', [('units', 'deg')]))),
                                          ('platform_true_track_angle',
                                           ('Variable', ['rows'], [1.2e-05, 2.4999999999999998e-05, 3.7999999999999995e-05], ('dict', [('units', 'deg')]))),
                                          ('platform_attitude',
                                           ('Variable', ['rows'],
                                            [('dict',
                                              [('pitch', (1.8999999999999998e-05, ('dict', [('units', 'deg')]))),
                                               ('roll', (2.6e-05, ('dict', [('units', 'deg')]))),
                                               ('yaw', (3.2999999999999996e-05, ('dict', [('units', 'deg')])))]),
                                             ('dict',
                                              [('pitch', (3.2e-05, ('dict', [('units', 'deg')]))), ('roll', (3.9e-05, ('dict', [('units', 'deg')]))),
                                               ('yaw', (4.6e-05, ('dict', [('units', 'deg')])))]),
                                             ('dict',
                                              [('pitch', (4.4999999999999996e-05, ('dict', [('units', 'deg')]))),
                                               ('roll', (5.2e-05, ('dict', [('units', 'deg')]))), ('yaw', (5.9e-05, ('dict', [('units', 'deg')])))])],
                                            ('dict', []))),
                                          ('latitude_of_first_pixel',
                                           ('Variable', ['rows'], [3.9999999999999996e-05, 5.3e-05, 6.599999999999999e-05], ('dict', [('units', 'deg')]))),
                                          ('latitude_of_center_pixel',
                                           ('Variable', ['rows'], [4.7e-05, 5.9999999999999995e-05, 7.3e-05], ('dict', [('units', 'deg')]))),
                                          ('latitude_of_last_pixel',
                                           ('Variable', ['rows'], [5.4e-05, 6.7e-05, 7.999999999999999e-05], ('dict', [('units', 'deg')]))),
                                          ('longitude_of_first_pixel', ('Variable', ['rows'], [6.1e-05, 7.4e-05, 8.7e-05], ('dict', [('units', 'deg')]))),
                                          ('longitude_of_center_pixel',
                                           ('Variable', ['rows'], [6.8e-05, 8.099999999999999e-05, 9.4e-05], ('dict', [('units', 'deg')]))),
                                          ('longitude_of_last_pixel', ('Variable', ['rows'], [7.5e-05, 8.8e-05, 4e-06], ('dict', [('units', 'deg')]))),
                                          ('burst_number', ('Variable', ['rows'], [82, 95, 11], ('dict', []))),
                                          ('line_number_in_this_burst', ('Variable', ['rows'], [89, 5, 18], ('dict', [])))]),
                                        ('dict',
                                         [('sar_image_data_record_index', 1), ('sensor_parameters_update_flag', 51),
                                          ('sar_channel_id', ('subclass', 'EnumInteger', 0)), ('sar_channel_code', ('subclass', 'EnumInteger', 79)),
                                          ('transmitted_pulse_polarization', 'horizontal'), ('received_pulse_polarization', ('subclass', 'EnumInteger', 86)),
                                          ('scan_id', 3), ('onboard_range_compressed_flag', False), ('chirp_type_designator', ('subclass', 'EnumInteger', 10)),
                                          ('platform_position_parameters_update_flag', ('subclass', 'EnumInteger', 25)), ('interleaving_id', 'BSQ'),
                                          ('coordinates',
                                           ['rows', 'sensor_acquisition_date', 'prf', 'chirp_length', 'chirp_constant_coefficient', 'chirp_linear_coefficient',
                                            'chirp_quadratic_coefficient', 'sensor_acquisition_date_microseconds', 'receiver_gain', 'invalid_line_flag',
                                            'elevation_angle_at_nadir_of_antenna', 'antenna_squint_angle', 'slant_range_to_first_data_sample',
                                            'data_record_window_position', 'platform_latitude', 'platform_longitude', 'platform_altitude',
                                            'platform_ground_speed', 'platform_velocity', 'platform_acceleration', 'platform_track_angle',
                                            'platform_true_track_angle', 'platform_attitude', 'latitude_of_first_pixel', 'latitude_of_center_pixel',
                                            'latitude_of_last_pixel', 'longitude_of_first_pixel', 'longitude_of_center_pixel', 'longitude_of_last_pixel',
                                            'burst_number', 'line_number_in_this_burst'])])),
                                       ('dict',
                                        [('type_code', 'C*8'), ('shape', (3, 2)), ('dtype', 'complex64'),
                                         ('byte_ranges', [(1264, 1280), (1824, 1840), (2384, 2400)])]))),
                          'arguments_unchanged': True},
 'real/10/IU2/lines': {'outcome': ('returned',
                                   ('Group', '/', None,
                                    ('dict',
                                     [('rows', ('Variable', ['rows'], [1], ('dict', []))),
                                      ('sensor_acquisition_date',
                                       ('Variable', ['rows'], ('ndarray', 'datetime64[ns]', (1,), ['2020-02-08T00:20:34.568000000']), ('dict', []))),
                                      ('prf', ('Variable', ['rows'], [91], ('dict', [('units', 'mHz')]))),
                                      ('chirp_length', ('Variable', ['rows'], [15], ('dict', [('units', 'ns')]))),
                                      ('chirp_constant_coefficient', ('Variable', ['rows'], [22], ('dict', [('units', 'Hz')]))),
                                      ('chirp_linear_coefficient', ('Variable', ['rows'], [29], ('dict', [('units', 'Hz/µs')]))),
                                      ('chirp_quadratic_coefficient', ('Variable', ['rows'], [36], ('dict', [('units', 'Hz/µs^2')]))),
                                      ('sensor_acquisition_date_microseconds',
                                       ('Variable', ['rows'], ('ndarray', 'datetime64[ns]', (1,), ['2020-02-10T03:18:03.593778000']), ('dict', []))),
                                      ('receiver_gain', ('Variable', ['rows'], [57], ('dict', [('units', 'dB')]))),
                                      ('invalid_line_flag', ('Variable', ['rows'], [True], ('dict', []))),
                                      ('elevation_angle_at_nadir_of_antenna',
                                       ('Variable', ['rows'],
                                        [('dict', [('electronic', (71, ('dict', [('units', 'deg')]))), ('mechanic', (78, ('dict', [('units', 'deg')])))])],
                                        ('dict', []))),
                                      ('antenna_squint_angle',
                                       ('Variable', ['rows'],
                                        [('dict', [('electronic', (85, ('dict', [('units', 'deg')]))), ('mechanic', (92, ('dict', [('units', 'deg')])))])],
                                        ('dict', []))),
                                      ('slant_range_to_first_data_sample', ('Variable', ['rows'], [2], ('dict', [('units', 'm')]))),
                                      ('data_record_window_position', ('Variable', ['rows'], [9], ('dict', [('units', 'ns')]))),
                                      ('platform_latitude', ('Variable', ['rows'], [2.9999999999999997e-05], ('dict', [('units', 'deg')]))),
                                      ('platform_longitude', ('Variable', ['rows'], [3.7e-05], ('dict', [('units', 'deg')]))),
                                      ('platform_altitude', ('Variable', ['rows'], [44], ('dict', [('units', 'deg')]))),
                                      ('platform_ground_speed', ('Variable', ['rows'], [51], ('dict', [('units', 'cm/s')]))),
                                      ('platform_velocity',
                                       ('Variable', ['rows'],
                                        [('dict',
                                          [('x', (58, ('dict', [('units', 'cm/s')]))), ('y', (65, ('dict', [('units', 'cm/s')]))),
                                           ('z', (72, ('dict', [('units', 'cm/s')])))])],
                                        ('dict', []))),
                                      ('platform_acceleration',
                                       ('Variable', ['rows'],
                                        [('dict',
                                          [('x', (79, ('dict', [('units', 'cm/s^2')]))), ('y', (86, ('dict', [('units', 'cm/s^2')]))),
                                           ('z', (93, ('dict', [('units', 'cm/s^2')])))])],
                                        ('dict', []))),
                                      ('platform_track_angle', ('Variable', ['rows'], [3e-06], ('dict', [('units', 'deg')]))),
                                      ('platform_true_track_angle', ('Variable', ['rows'], [9.999999999999999e-06], ('dict', [('units', 'deg')]))),
                                      ('platform_attitude',
                                       ('Variable', ['rows'],
                                        [('dict',
                                          [('pitch', (1.7e-05, ('dict', [('units', 'deg')]))), ('roll', (2.4e-05, ('dict', [('units', 'deg')]))),
                                           ('yaw', (3.1e-05, ('dict', [('units', 'deg')])))])],
                                        ('dict', []))),
                                      ('latitude_of_first_pixel', ('Variable', ['rows'], [3.7999999999999995e-05], ('dict', [('units', 'deg')]))),
                                      ('latitude_of_center_pixel', ('Variable', ['rows'], [4.4999999999999996e-05], ('dict', [('units', 'deg')]))),
                                      ('latitude_of_last_pixel', ('Variable', ['rows'], [5.2e-05], ('dict', [('units', 'deg')]))),
                                      ('longitude_of_first_pixel', ('Variable', ['rows'], [5.9e-05], ('dict', [('units', 'deg')]))),
                                      ('longitude_of_center_pixel', ('Variable', ['rows'], [6.599999999999999e-05], ('dict', [('units', 'deg')]))),
                                      ('longitude_of_last_pixel', ('Variable', ['rows'], [7.3e-05], ('dict', [('units', 'deg')]))),
                                      ('burst_number', ('Variable', ['rows'], [80], ('dict', []))),
                                      ('line_number_in_this_burst', ('Variable', ['rows'], [87], ('dict', [])))]),
                                    ('dict',
                                     [('sar_image_data_record_index', 1), ('sensor_parameters_update_flag', 49),
                                      ('sar_channel_id', ('subclass', 'EnumInteger', 0)), ('sar_channel_code', ('subclass', 'EnumInteger', 77)),
                                      ('transmitted_pulse_polarization', 'horizontal'), ('received_pulse_polarization', ('subclass', 'EnumInteger', 84)),
                                      ('scan_id', 1), ('onboard_range_compressed_flag', False), ('chirp_type_designator', ('subclass', 'EnumInteger', 8)),
                                      ('platform_position_parameters_update_flag', ('subclass', 'EnumInteger', 23))]))),
                       'arguments_unchanged': True},
 'real/10/IU2/metadata': {'outcome': ('returned',
                                      (('Group', '/', None,
                                        ('dict',
                                         [('rows', ('Variable', ['rows'], [1], ('dict', []))),
                                          ('sensor_acquisition_date',
                                           ('Variable', ['rows'], ('ndarray', 'datetime64[ns]', (1,), ['2020-02-08T00:20:34.568000000']), ('dict', []))),
                                          ('prf', ('Variable', ['rows'], [91], ('dict', [('units', 'mHz')]))),
                                          ('chirp_length', ('Variable', ['rows'], [15], ('dict', [('units', 'ns')]))),
                                          ('chirp_constant_coefficient', ('Variable', ['rows'], [22], ('dict', [('units', 'Hz')]))),
                                          ('chirp_linear_coefficient', ('Variable', ['rows'], [29], ('dict', [('units', 'Hz/µs')]))),
                                          ('chirp_quadratic_coefficient', ('Variable', ['rows'], [36], ('dict', [('units', 'Hz/µs^2')]))),
                                          ('sensor_acquisition_date_microseconds',
                                           ('Variable', ['rows'], ('ndarray', 'datetime64[ns]', (1,), ['2020-02-10T03:18:03.593778000']), ('dict', []))),
                                          ('receiver_gain', ('Variable', ['rows'], [57], ('dict', [('units', 'dB')]))),
                                          ('invalid_line_flag', ('Variable', ['rows'], [True], ('dict', []))),
                                          ('elevation_angle_at_nadir_of_antenna',
                                           ('Variable', ['rows'],
                                            [('dict', [('electronic', (71, ('dict', [('units', 'deg')]))), ('mechanic', (78, ('dict', [('units', 'deg')])))])],
                                            ('dict', []))),
                                          ('antenna_squint_angle',
                                           ('Variable', ['rows'],
                                            [('dict', [('electronic', (85, ('dict', [('units', 'deg')]))), ('mechanic', (92, ('dict', [('units', 'deg')])))])],
                                            ('dict', []))),
                                          ('slant_range_to_first_data_sample', ('Variable', ['rows'], [2], ('dict', [('units', 'm')]))),
                                          ('data_record_window_position', ('Variable', ['rows'], [9], ('dict', [('units', 'ns')]))),
                                          ('platform_latitude', ('Variable', ['rows'], [2.9999999999999997e-05], ('dict', [('units', 'deg')]))),
                                          ('platform_longitude', ('Variable', ['rows'], [3.7e-05], ('dict', [('units', 'deg')]))),
                                          ('platform_altitude', ('Variable', ['rows'], [44], ('dict', [('units', 'deg')]))),
                                          ('platform_ground_speed', ('Variable', ['rows'], [51], ('dict', [('units', 'cm/s')]))),
                                          ('platform_velocity',
                                           ('Variable', ['rows'],
                                            [('dict',
                                              [('x', (58, ('dict', [('units', 'cm/s')]))), ('y', (65, ('dict', [('units', 'cm/s')]))),
                                               ('z', (72, ('dict', [('units', 'cm/s')])))])],
                                            ('dict', []))),
                                          ('platform_acceleration',
                                           ('Variable', ['rows'],
                                            [('dict',
                                              [('x', (79, ('dict', [('units', 'cm/s^2')]))), ('y', (86, ('dict', [('units', 'cm/s^2')]))),
                                               ('z', (93, ('dict', [('units', 'cm/s^2')])))])],
                                            ('dict', []))),
                                          ('platform_track_angle', ('Variable', ['rows'], [3e-06], ('dict', [('units', 'deg')]))),
                                          ('platform_true_track_angle', ('Variable', ['rows'], [9.999999999999999e-06], ('dict', [('units', 'deg')]))),
                                          ('platform_attitude',
                                           ('Variable', ['rows'],
                                            [('dict',
                                              [('pitch', (1.7e-05, ('dict', [('units', 'deg')]))), ('roll', (2.4e-05, ('dict', [('units', 'deg')]))),
                                               ('yaw', (3.1e-05, ('dict', [('units', 'deg')])))])],
                                            ('dict', []))),
                                          ('latitude_of_first_pixel', ('Variable', ['rows'], [3.7999999999999995e-05], ('dict', [('units', 'deg')]))),
                                          ('latitude_of_center_pixel', ('Variable', ['rows'], [4.4999999999999996e-05], ('dict', [('units', 'deg')]))),
                                          ('latitude_of_last_pixel', ('Variable', ['rows'], [5.2e-05], ('dict', [('units', 'deg')]))),
                                          ('longitude_of_first_pixel', ('Variable', ['rows'], [5.9e-05], ('dict', [('units', 'deg')]))),
                                          ('longitude_of_center_pixel', ('Variable', ['rows'], [6.599999999999999e-05], ('dict', [('units', 'deg')]))),
                                          ('longitude_of_last_pixel', ('Variable', ['rows'], [7.3e-05], ('dict', [('units', 'deg')]))),
                                          ('burst_number', ('Variable', ['rows'], [80], ('dict', []))),
                                          ('line_number_in_this_burst', ('Variable', ['rows'], [87], ('dict', [])))]),
                                        ('dict',
                                         [('sar_image_data_record_index', 1), ('sensor_parameters_update_flag', 49),
                                          ('sar_channel_id', ('subclass', 'EnumInteger', 0)), ('sar_channel_code', ('subclass', 'EnumInteger', 77)),
                                          ('transmitted_pulse_polarization', 'horizontal'), ('received_pulse_polarization', ('subclass', 'EnumInteger', 84)),
                                          ('scan_id', 1), ('onboard_range_compressed_flag', False), ('chirp_type_designator', ('subclass', 'EnumInteger', 8)),
                                          ('platform_position_parameters_update_flag', ('subclass', 'EnumInteger', 23)), ('interleaving_id', 'BSQ'),
                                          ('number_of_burst_data', 3), ('number_of_lines_per_burst', 1), ('number_of_overlap_lines_with_adjacent_bursts', 0),
                                          ('coordinates',
                                           ['rows', 'sensor_acquisition_date', 'prf', 'chirp_length', 'chirp_constant_coefficient', 'chirp_linear_coefficient',
                                            'chirp_quadratic_coefficient', 'sensor_acquisition_date_microseconds', 'receiver_gain', 'invalid_line_flag',
                                            'elevation_angle_at_nadir_of_antenna', 'antenna_squint_angle', 'slant_range_to_first_data_sample',
                                            'data_record_window_position', 'platform_latitude', 'platform_longitude', 'platform_altitude',
                                            'platform_ground_speed', 'platform_velocity', 'platform_acceleration', 'platform_track_angle',
                                            'platform_true_track_angle', 'platform_attitude', 'latitude_of_first_pixel', 'latitude_of_center_pixel',
                                            'latitude_of_last_pixel', 'longitude_of_first_pixel', 'longitude_of_center_pixel', 'longitude_of_last_pixel',
                                            'burst_number', 'line_number_in_this_burst'])])),
                                       ('dict', [('type_code', 'IU2'), ('shape', (1, 2)), ('dtype', 'uint16'), ('byte_ranges', [(1264, 1268)])]))),
                          'arguments_unchanged': True},
 'real/11/IU2/lines': {'outcome': ('returned',
                                   ('Group', '/', None,
                                    ('dict',
                                     [('rows', ('Variable', ['rows'], [1, 2, 3, 4], ('dict', []))),
                                      ('sensor_acquisition_date',
                                       ('Variable', ['rows'],
                                        ('ndarray', 'datetime64[ns]', (4,),
                                         ['2020-02-11T00:20:34.571000000', '2020-03-19T00:41:09.138000000', '2020-04-25T01:01:43.705000000',
                                          '2020-06-01T01:22:18.272000000']),
                                        ('dict', []))),
                                      ('prf', ('Variable', ['rows'], [94, 10, 23, 36], ('dict', [('units', 'mHz')]))),
                                      ('slant_range_to_first_pixel', ('Variable', ['rows'], [11, 24, 37, 50], ('dict', [('units', 'm')]))),
                                      ('slant_range_to_mid_pixel', ('Variable', ['rows'], [18, 31, 44, 57], ('dict', [('units', 'm')]))),
                                      ('slant_range_to_last_pixel', ('Variable', ['rows'], [25, 38, 51, 64], ('dict', [('units', 'm')]))),
                                      ('doppler_centroid_value_at_first_pixel',
                                       ('Variable', ['rows'], [0.032, 0.045, 0.058, 0.07100000000000001], ('dict', [('units', 'Hz')]))),
                                      ('doppler_centroid_value_at_mid_pixel',
                                       ('Variable', ['rows'], [0.039, 0.052000000000000005, 0.065, 0.078], ('dict', [('units', 'Hz')]))),
                                      ('doppler_centroid_value_at_last_pixel',
                                       ('Variable', ['rows'], [0.046, 0.059000000000000004, 0.07200000000000001, 0.085], ('dict', [('units', 'Hz')]))),
                                      ('azimuth_fm_rate_of_first_pixel', ('Variable', ['rows'], [53, 66, 79, 92], ('dict', [('units', 'Hz/ms')]))),
                                      ('azimuth_fm_rate_of_mid_pixel', ('Variable', ['rows'], [60, 73, 86, 2], ('dict', [('units', 'Hz/ms')]))),
                                      ('azimuth_fm_rate_of_last_pixel', ('Variable', ['rows'], [67, 80, 93, 9], ('dict', [('units', 'Hz/ms')]))),
                                      ('look_angle_of_nadir', ('Variable', ['rows'], [7.4e-05, 8.7e-05, 3e-06, 1.6e-05], ('dict', [('units', 'deg')]))),
                                      ('azimuth_squint_angle',
                                       ('Variable', ['rows'], [8.099999999999999e-05, 9.4e-05, 9.999999999999999e-06, 2.3e-05], ('dict', [('units', 'deg')]))),
                                      ('latitude_of_first_pixel',
                                       ('Variable', ['rows'], [3.2999999999999996e-05, 4.6e-05, 5.9e-05, 7.2e-05], ('dict', [('units', 'deg')]))),
                                      ('latitude_of_center_pixel',
                                       ('Variable', ['rows'], [3.9999999999999996e-05, 5.3e-05, 6.599999999999999e-05, 7.9e-05], ('dict', [('units', 'deg')]))),
                                      ('latitude_of_last_pixel',
                                       ('Variable', ['rows'], [4.7e-05, 5.9999999999999995e-05, 7.3e-05, 8.599999999999999e-05], ('dict', [('units', 'deg')]))),
                                      ('longitude_of_first_pixel',
                                       ('Variable', ['rows'], [5.4e-05, 6.7e-05, 7.999999999999999e-05, 9.3e-05], ('dict', [('units', 'deg')]))),
                                      ('longitude_of_center_pixel', ('Variable', ['rows'], [6.1e-05, 7.4e-05, 8.7e-05, 3e-06], ('dict', [('units', 'deg')]))),
                                      ('longitude_of_last_pixel',
                                       ('Variable', ['rows'], [6.8e-05, 8.099999999999999e-05, 9.4e-05, 9.999999999999999e-06], ('dict', [('units', 'deg')]))),
                                      ('northing_of_first_pixel', ('Variable', ['rows'], [75, 88, 4, 17], ('dict', [('units', 'm')]))),
                                      ('northing_of_last_pixel', ('Variable', ['rows'], [89, 5, 18, 31], ('dict', [('units', 'm')]))),
                                      ('easting_of_first_pixel', ('Variable', ['rows'], [96, 12, 25, 38], ('dict', [('units', 'm')]))),
                                      ('easting_of_last_pixel', ('Variable', ['rows'], [13, 26, 39, 52], ('dict', [('units', 'm')]))),
                                      ('line_heading',
                                       ('Variable', ['rows'], [1.9999999999999998e-05, 3.2999999999999996e-05, 4.6e-05, 5.9e-05],
                                        ('dict', [('units', 'deg')])))]),
                                    ('dict',
                                     [('sar_image_data_record_index', 1), ('sensor_parameters_update_flag', 52),
                                      ('sar_channel_id', ('subclass', 'EnumInteger', 0)), ('sar_channel_code', ('subclass', 'EnumInteger', 80)),
                                      ('transmitted_pulse_polarization', 'horizontal'), ('received_pulse_polarization', ('subclass', 'EnumInteger', 87)),
                                      ('scan_id', 4), ('geographic_reference_parameter_update_flag', 26)]))),
                       'arguments_unchanged': True},
 'real/11/IU2/metadata': {'outcome': ('returned',
                                      (('Group', '/', None,
                                        ('dict',
                                         [('rows', ('Variable', ['rows'], [1, 2, 3, 4], ('dict', []))),
                                          ('sensor_acquisition_date',
                                           ('Variable', ['rows'],
                                            ('ndarray', 'datetime64[ns]', (4,),
                                             ['2020-02-11T00:20:34.571000000', '2020-03-19T00:41:09.138000000', '2020-04-25T01:01:43.705000000',
                                              '2020-06-01T01:22:18.272000000']),
                                            ('dict', []))),
                                          ('prf', ('Variable', ['rows'], [94, 10, 23, 36], ('dict', [('units', 'mHz')]))),
                                          ('slant_range_to_first_pixel', ('Variable', ['rows'], [11, 24, 37, 50], ('dict', [('units', 'm')]))),
                                          ('slant_range_to_mid_pixel', ('Variable', ['rows'], [18, 31, 44, 57], ('dict', [('units', 'm')]))),
                                          ('slant_range_to_last_pixel', ('Variable', ['rows'], [25, 38, 51, 64], ('dict', [('units', 'm')]))),
                                          ('doppler_centroid_value_at_first_pixel',
                                           ('Variable', ['rows'], [0.032, 0.045, 0.058, 0.07100000000000001], ('dict', [('units', 'Hz')]))),
                                          ('doppler_centroid_value_at_mid_pixel',
                                           ('Variable', ['rows'], [0.039, 0.052000000000000005, 0.065, 0.078], ('dict', [('units', 'Hz')]))),
                                          ('doppler_centroid_value_at_last_pixel',
                                           ('Variable', ['rows'], [0.046, 0.059000000000000004, 0.07200000000000001, 0.085], ('dict', [('units', 'Hz')]))),
                                          ('azimuth_fm_rate_of_first_pixel', ('Variable', ['rows'], [53, 66, 79, 92], ('dict', [('units', 'Hz/ms')]))),
                                          ('azimuth_fm_rate_of_mid_pixel', ('Variable', ['rows'], [60, 73, 86, 2], ('dict', [('units', 'Hz/ms')]))),
                                          ('azimuth_fm_rate_of_last_pixel', ('Variable', ['rows'], [67, 80, 93, 9], ('dict', [('units', 'Hz/ms')]))),
                                          ('look_angle_of_nadir', ('Variable', ['rows'], [7.4e-05, 8.7e-05, 3e-06, 1.6e-05], ('dict', [('units', 'deg')]))),
                                          ('azimuth_squint_angle',
                                           ('Variable', ['rows'], [8.099999999999999e-05, 9.4e-05, 9.999999999999999e-06, 2.3e-05],
                                            ('dict', [('units', 'deg')]))),
                                          ('latitude_of_first_pixel',
                                           ('Variable', ['rows'], [3.2999999999999996e-05, 4.6e-05, 5.9e-05, 7.2e-05], ('dict', [('units', 'deg')]))),
                                          ('latitude_of_center_pixel',
                                           ('Variable', ['rows'], [3.9999999999999996e-05, 5.3e-05, 6.599999999999999e-05, 7.9e-05],
                                            ('dict', [('units', 'deg')]))),
                                          ('latitude_of_last_pixel',
                                           ('Variable', ['rows'], [4.7e-05, 5.9999999999999995e-05, 7.3e-05, 8.599999999999999e-05],
                                            ('dict', [('units', 'deg')]))),
                                          ('longitude_of_first_pixel',
                                           ('Variable', ['rows'], [5.4e-05, 6.7e-05, 7.999999999999999e-05, 9.3e-05], ('dict', [('units', 'deg')]))),
                                          ('longitude_of_center_pixel',
                                           ('Variable', ['rows'], [6.1e-05, 7.4e-05, 8.7e-05, 3e-06], ('dict', [('units', 'deg')]))),
                                          ('longitude_of_last_pixel',
                                           ('Variable', ['rows'], [6.8e-05, 8.099999999999999e-05, 9.4e-05, 9.999999999999999e-06],
                                            ('dict', [('units', 'deg')]))),
                                          ('northing_of_first_pixel', ('Variable', ['rows'], [75, 88, 4, 17], ('dict', [('units', 'm')]))),
                                          ('northing_of_last_pixel', ('Variable', ['rows'], [89, 5, 18, 31], ('dict', [('units', 'm')]))),
                                          ('easting_of_first_pixel', ('Variable', ['rows'], [96, 12, 25, 38], ('dict', [('units', 'm')]))),
                                          ('easting_of_last_pixel', ('Variable', ['rows'], [13, 26, 39, 52], ('dict', [('units', 'm')]))),
                                          ('line_heading',
                                           ('Variable', ['rows'], [1.9999999999999998e-05, 3.2999999999999996e-05, 4.6e-05, 5.9e-05],
                                            ('dict', [('units', 'deg')])))]),
                                        ('dict',
                                         [('sar_image_data_record_index', 1), ('sensor_parameters_update_flag', 52),
                                          ('sar_channel_id', ('subclass', 'EnumInteger', 0)), ('sar_channel_code', ('subclass', 'EnumInteger', 80)),
                                          ('transmitted_pulse_polarization', 'horizontal'), ('received_pulse_polarization', ('subclass', 'EnumInteger', 87)),
                                          ('scan_id', 4), ('geographic_reference_parameter_update_flag', 26), ('interleaving_id', 'BSQ'),
                                          ('valid_range', [0, 65535]),
                                          ('coordinates',
                                           ['rows', 'sensor_acquisition_date', 'prf', 'slant_range_to_first_pixel', 'slant_range_to_mid_pixel',
                                            'slant_range_to_last_pixel', 'doppler_centroid_value_at_first_pixel', 'doppler_centroid_value_at_mid_pixel',
                                            'doppler_centroid_value_at_last_pixel', 'azimuth_fm_rate_of_first_pixel', 'azimuth_fm_rate_of_mid_pixel',
                                            'azimuth_fm_rate_of_last_pixel', 'look_angle_of_nadir', 'azimuth_squint_angle', 'latitude_of_first_pixel',
                                            'latitude_of_center_pixel', 'latitude_of_last_pixel', 'longitude_of_first_pixel', 'longitude_of_center_pixel',
                                            'longitude_of_last_pixel', 'northing_of_first_pixel', 'northing_of_last_pixel', 'easting_of_first_pixel',
                                            'easting_of_last_pixel', 'line_heading'])])),
                                       ('dict',
                                        [('type_code', 'IU2'), ('shape', (4, 2)), ('dtype', 'uint16'),
                                         ('byte_ranges', [(912, 916), (1108, 1112), (1304, 1308), (1500, 1504)])]))),
                          'arguments_unchanged': True},
 'real/11/C*8/lines': {'outcome': ('returned', ('Group', '/', None, ('dict', []), ('dict', []))), 'arguments_unchanged': True},
 'real/11/C*8/metadata': {'outcome': ('returned',
                                      (('Group', '/', None, ('dict', []), ('dict', [('interleaving_id', 'BSQ'), ('coordinates', [])])),
                                       ('dict', [('type_code', 'C*8'), ('shape', (0, 2)), ('dtype', 'complex64'), ('byte_ranges', [])]))),
                          'arguments_unchanged': True},
 'real/11/R*4/lines': {'outcome': ('returned',
                                   ('Group', '/', None,
                                    ('dict',
                                     [('rows', ('Variable', ['rows'], [1, 2], ('dict', []))),
                                      ('sensor_acquisition_date',
                                       ('Variable', ['rows'],
                                        ('ndarray', 'datetime64[ns]', (2,), ['2020-02-09T00:20:34.569000000', '2020-03-17T00:41:09.136000000']),
                                        ('dict', []))),
                                      ('prf', ('Variable', ['rows'], [92, 8], ('dict', [('units', 'mHz')]))),
                                      ('slant_range_to_first_pixel', ('Variable', ['rows'], [9, 22], ('dict', [('units', 'm')]))),
                                      ('slant_range_to_mid_pixel', ('Variable', ['rows'], [16, 29], ('dict', [('units', 'm')]))),
                                      ('slant_range_to_last_pixel', ('Variable', ['rows'], [23, 36], ('dict', [('units', 'm')]))),
                                      ('doppler_centroid_value_at_first_pixel',
                                       ('Variable', ['rows'], [0.03, 0.043000000000000003], ('dict', [('units', 'Hz')]))),
                                      ('doppler_centroid_value_at_mid_pixel', ('Variable', ['rows'], [0.037, 0.05], ('dict', [('units', 'Hz')]))),
                                      ('doppler_centroid_value_at_last_pixel', ('Variable', ['rows'], [0.044, 0.057], ('dict', [('units', 'Hz')]))),
                                      ('azimuth_fm_rate_of_first_pixel', ('Variable', ['rows'], [51, 64], ('dict', [('units', 'Hz/ms')]))),
                                      ('azimuth_fm_rate_of_mid_pixel', ('Variable', ['rows'], [58, 71], ('dict', [('units', 'Hz/ms')]))),
                                      ('azimuth_fm_rate_of_last_pixel', ('Variable', ['rows'], [65, 78], ('dict', [('units', 'Hz/ms')]))),
                                      ('look_angle_of_nadir', ('Variable', ['rows'], [7.2e-05, 8.499999999999999e-05], ('dict', [('units', 'deg')]))),
                                      ('azimuth_squint_angle', ('Variable', ['rows'], [7.9e-05, 9.2e-05], ('dict', [('units', 'deg')]))),
                                      ('latitude_of_first_pixel', ('Variable', ['rows'], [3.1e-05, 4.4e-05], ('dict', [('units', 'deg')]))),
                                      ('latitude_of_center_pixel', ('Variable', ['rows'], [3.7999999999999995e-05, 5.1e-05], ('dict', [('units', 'deg')]))),
                                      ('latitude_of_last_pixel', ('Variable', ['rows'], [4.4999999999999996e-05, 5.8e-05], ('dict', [('units', 'deg')]))),
                                      ('longitude_of_first_pixel', ('Variable', ['rows'], [5.2e-05, 6.5e-05], ('dict', [('units', 'deg')]))),
                                      ('longitude_of_center_pixel', ('Variable', ['rows'], [5.9e-05, 7.2e-05], ('dict', [('units', 'deg')]))),
                                      ('longitude_of_last_pixel', ('Variable', ['rows'], [6.599999999999999e-05, 7.9e-05], ('dict', [('units', 'deg')]))),
                                      ('northing_of_first_pixel', ('Variable', ['rows'], [73, 86], ('dict', [('units', 'm')]))),
                                      ('northing_of_last_pixel', ('Variable', ['rows'], [87, 3], ('dict', [('units', 'm')]))),
                                      ('easting_of_first_pixel', ('Variable', ['rows'], [94, 10], ('dict', [('units', 'm')]))),
                                      ('easting_of_last_pixel', ('Variable', ['rows'], [11, 24], ('dict', [('units', 'm')]))),
                                      ('line_heading', ('Variable', ['rows'], [1.8e-05, 3.1e-05], ('dict', [('units', 'deg')])))]),
                                    ('dict',
                                     [('sar_image_data_record_index', 1), ('sensor_parameters_update_flag', 50),
                                      ('sar_channel_id', ('subclass', 'EnumInteger', 0)), ('sar_channel_code', ('subclass', 'EnumInteger', 78)),
                                      ('transmitted_pulse_polarization', 'horizontal'), ('received_pulse_polarization', ('subclass', 'EnumInteger', 85)),
                                      ('scan_id', 2), ('geographic_reference_parameter_update_flag', 24)]))),
                       'arguments_unchanged': True},
 'real/11/R*4/metadata': {'outcome': ('raised', 'builtins', 'ValueError', 'unknown type code: R*4'), 'arguments_unchanged': True},
 'module/names': ['apply_overrides', 'deduplicate_attrs', 'dtypes', 'extract_attrs', 'extract_format_type', 'extract_shape', 'transform_line_metadata',
                  'transform_metadata'],
 'module/signatures': ['(metadata)', '(header, metadata)']}
# === END RECORDED ===

if __name__ == "__main__":
    sys.exit(main())
