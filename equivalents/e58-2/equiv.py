"""Equivalence check for refactoring 2 (ceos_alos2.dicttoolz).

Run as a script (``python equiv.py``) or through pytest. The expected values
below were recorded from the UNCHANGED code with ``python equiv.py --record``.
"""

import collections
import copy
import re
import sys

from ceos_alos2 import dicttoolz


def outcome(func, *args, **kwargs):
    try:
        result = func(*args, **kwargs)
    except BaseException as e:  # noqa: B902
        return ("raise", type(e).__name__, str(e))
    return ("return", type(result).__name__, repr(result))


class Logged:
    """predicate recording the arguments it was called with"""

    def __init__(self, func):
        self.func = func
        self.calls = []

    def __call__(self, *args):
        self.calls.append(args)
        return self.func(*args)


def boom(*args):
    raise RuntimeError(f"boom {args!r}")


DATA = {1: 0, 3: 0, 2: 1, 0: 5, "x": None, (1, 2): "t", 4.0: -1, "": ""}
ORDERED = collections.OrderedDict([("b", 2), ("a", 1), ("c", 0)])

ITEM_PREDICATES = {
    "val_truthy_bool": lambda item: bool(item[1]),
    "key_is_str": lambda item: isinstance(item[0], str),
    "always_true": lambda item: True,
    "always_false": lambda item: False,
    "ints_1_0": lambda item: 1 if item[1] else 0,
    "floats": lambda item: 1.0 if item[1] else 0.0,
    "raw_value": lambda item: item[1],  # 0, 1, 5, None, "t", -1, "": only 0/1 are kept
    "none": lambda item: None,
    "strings": lambda item: "yes" if item[1] else "no",
    "unhashable": lambda item: [item[0]],
    "raises": boom,
    "not_callable_0": 0,  # toolz.groupby turns this into a getter
    "not_callable_1": 1,
    "not_callable_str": "abc",
    "not_callable_none": None,
}
COMPONENT_PREDICATES = {
    "truthy_bool": bool,
    "is_str": lambda x: isinstance(x, str),
    "always_true": lambda x: True,
    "always_false": lambda x: False,
    "ints_1_0": lambda x: 1 if x else 0,
    "raw": lambda x: x,
    "none": lambda x: None,
    "strings": lambda x: "yes" if x else "no",
    "unhashable": lambda x: [x],
    "raises": boom,
    "not_callable_0": 0,
    "not_callable_none": None,
    "two_args": lambda x, y: True,
}

MAPPING = {
    "a": 1,
    "b": {"c": 2, "d": {"e": 4}, "n": None},
    "l": [10, 20, {"z": 30}],
    "s": "text",
    "": {"": 0},
    "dotted.key": 5,
    0: {1: "int keys"},
}

COPY_INSTRUCTIONS = {
    "empty": {},
    "multiple_dest": {("b", "d"): ["a"]},
    "multiple_src": {("d",): ["b", "c"]},
    "missing": {("d",): ["e"]},
    "missing_multiple": {("d",): ["e", "f"]},
    "several": {("x",): ["a"], ("y", "z"): ["b", "d", "e"], ("q",): ["nope"], ("a",): ["b", "c"]},
    "chained": {("x",): ["a"], ("y",): ["x"]},
    "none_value": {("x",): ["b", "n"]},
    "list_index": {("x",): ["l", 1], ("y",): ["l", 2, "z"], ("w",): ["l", 5]},
    "str_source": {("x",): "a", ("y",): "bc", ("z",): "bd"},
    "str_dest": {"xy": ["a"]},
    "through_scalar": {("x",): ["a", "b"], ("y",): ["s", 0], ("z",): ["s", "k"]},
    "subtree": {("new", "tree"): ["b"]},
    "overwrite_subtree": {("b",): ["a"]},
    "dest_through_scalar": {("a", "x"): ["b", "c"]},
    "empty_source": {("x",): []},
    "empty_dest": {(): ["a"]},
    "int_keys": {("x",): [0, 1]},
    "source_not_iterable": {("x",): 5},
    "dest_not_iterable": {5: ["a"]},
    "sentinel_value": {("x",): ["sentinel"]},
}
MOVE_ONLY = {
    "single_source": {("x",): ["a"]},
    "head_missing": {("x",): ["nope", "deeper"]},
    "head_is_list": {("x",): ["l", 1]},
    "head_is_str": {("x",): ["s", 0]},
    "same_source_twice": {("x",): ["b", "c"], ("y",): ["b", "c"]},
    "move_then_reuse": {("x",): ["b", "d"], ("y",): ["b", "d", "e"]},
    "empty_source_move": {("x",): ()},
}

KEYS = [
    "a", "z", "b.c", "a.b", "b.d.e", "b.d.f", "b.n", "b.n.x", ["b", "d", "e"], ["a", "b"],
    [], "", ".", "..", "b.", ".b", "dotted.key", ["dotted.key"], ("b", "c"), ("b",),
    ["l", 0], ["l", 3], "l.0", ["l", 2, "z"], ["s", 0], "s.0", 0, 0.5, None, ["."],
    ["a", "."], ["b", ["c"]], b"a", [0, 1], [0, 2], "sentinel", {"a": 1}, {"."},
    frozenset({"a"}),
]


def observe():
    results = {}

    # --- itemsplit / valsplit / keysplit
    for name, predicate in ITEM_PREDICATES.items():
        for dname, data in (("data", DATA), ("ordered", ORDERED), ("empty", {})):
            logged = Logged(predicate) if callable(predicate) else predicate
            before = copy.deepcopy(data)
            res = outcome(dicttoolz.itemsplit, logged, data)
            calls = logged.calls if callable(predicate) else None
            results[f"itemsplit:{name}:{dname}"] = (res, repr(calls), data == before)
    for funcname in ("valsplit", "keysplit"):
        func = getattr(dicttoolz, funcname)
        for name, predicate in COMPONENT_PREDICATES.items():
            for dname, data in (("data", DATA), ("ordered", ORDERED), ("empty", {})):
                logged = Logged(predicate) if callable(predicate) else predicate
                res = outcome(func, logged, data)
                calls = logged.calls if callable(predicate) else None
                results[f"{funcname}:{name}:{dname}"] = (res, repr(calls))
        results[f"{funcname}:kw"] = outcome(func, predicate=bool, d={"a": 0, "b": 1})
    for funcname in ("itemsplit", "valsplit", "keysplit"):
        func = getattr(dicttoolz, funcname)
        results[f"{funcname}:not_a_mapping"] = outcome(func, bool, [1, 2])
        results[f"{funcname}:none"] = outcome(func, bool, None)
        first, second = func(lambda x: True, ORDERED)
        results[f"{funcname}:types"] = (type(first).__name__, type(second).__name__)
        res = func(lambda x: True, DATA)
        results[f"{funcname}:fresh"] = (type(res).__name__, res[0] is not DATA, res[0] == DATA)

    # --- the simple wrappers
    results["assoc"] = outcome(dicttoolz.assoc, "k", 1, {"a": 2})
    results["assoc:overwrite"] = outcome(dicttoolz.assoc, "a", 1, {"a": 2, "b": 3})
    results["dissoc:list"] = outcome(dicttoolz.dissoc, ["a", "q"], {"a": 2, "b": 3})
    results["dissoc:str"] = outcome(dicttoolz.dissoc, "ab", {"a": 2, "b": 3, "ab": 4, "c": 5})
    results["dissoc:int"] = outcome(dicttoolz.dissoc, 5, {"a": 2})
    results["dissoc:int_empty"] = outcome(dicttoolz.dissoc, 5, {})
    results["dissoc:unhashable_key_lookup"] = outcome(dicttoolz.dissoc, {"a"}, {"a": 2, (1,): 3})
    results["zip_default"] = outcome(dicttoolz.zip_default, {"a": 1, "b": 2}, {"c": 3, "a": 4})
    results["zip_default:default"] = outcome(
        dicttoolz.zip_default, {"a": 1}, {"b": 2}, {}, default="x"
    )
    results["zip_default:none"] = outcome(dicttoolz.zip_default)
    results["apply_to_items"] = outcome(
        dicttoolz.apply_to_items, {"a": str, "q": int}, {"a": 1, "b": 2}
    )
    results["apply_to_items:default"] = outcome(
        dicttoolz.apply_to_items, {"a": str}, {"a": 1, "b": 2}, default=lambda x: x * 2
    )

    # --- copy_items / move_items
    mapping = dict(MAPPING, sentinel=dicttoolz.sentinel)

    def describe(func, instructions):
        source = copy.deepcopy(MAPPING)
        source["sentinel"] = dicttoolz.sentinel
        snapshot = repr(source)
        try:
            result = func(instructions, source)
        except BaseException as e:  # noqa: B902
            return ("raise", type(e).__name__, str(e), repr(source) == snapshot)
        text = repr(result).replace(repr(dicttoolz.sentinel), "<sentinel>")
        # deep copies of the sentinel are new objects with a new address
        text = re.sub(r"<object object at 0x[0-9a-f]+>", "<object>", text)
        shared = {
            str(k): result.get(k) is source.get(k)
            for k in ("b", "l", "")
            if isinstance(result, dict)
        }
        return (
            "return",
            type(result).__name__,
            text,
            repr(source) == snapshot,
            result is source,
            shared,
        )

    for name, instructions in COPY_INSTRUCTIONS.items():
        results[f"copy_items:{name}"] = describe(dicttoolz.copy_items, instructions)
        results[f"move_items:{name}"] = describe(dicttoolz.move_items, instructions)
    for name, instructions in MOVE_ONLY.items():
        results[f"copy_items:{name}"] = describe(dicttoolz.copy_items, instructions)
        results[f"move_items:{name}"] = describe(dicttoolz.move_items, instructions)
    results["copy_items:kw"] = outcome(
        dicttoolz.copy_items, instructions={("x",): ["a"]}, mapping={"a": 1}
    )
    results["move_items:kw"] = outcome(
        dicttoolz.move_items, instructions={("x",): ["a"]}, mapping={"a": 1}
    )
    results["copy_items:not_mapping"] = outcome(dicttoolz.copy_items, {("x",): [0]}, [1, 2])
    results["move_items:not_mapping"] = outcome(dicttoolz.move_items, {("x",): [0]}, [1, 2])
    results["copy_items:instructions_list"] = outcome(dicttoolz.copy_items, [1], {"a": 1})
    results["move_items:instructions_list"] = outcome(dicttoolz.move_items, [1], {"a": 1})

    # --- key_exists
    for key in KEYS:
        results[f"key_exists:{key!r}"] = outcome(dicttoolz.key_exists, key, mapping)
    results["key_exists:in_list"] = outcome(dicttoolz.key_exists, [1], [5, 6])
    results["key_exists:in_str"] = outcome(dicttoolz.key_exists, "0", "abc")
    results["key_exists:kw"] = outcome(dicttoolz.key_exists, key="a", mapping={"a": 1})

    results["names"] = sorted(
        name
        for name in (
            "itemsplit valsplit keysplit assoc dissoc zip_default apply_to_items copy_items"
            " move_items key_exists sentinel assoc_ assoc_in get_in keyfilter passthrough"
            " concat groupby unique copy"
        ).split()
        if hasattr(dicttoolz, name)
    )
    return results


EXPECTED = {'itemsplit:val_truthy_bool:data': (('return',
                                     'tuple',
                                     "({2: 1, 0: 5, (1, 2): 't', 4.0: -1}, {1: 0, 3: 0, 'x': None, "
                                     "'': ''})"),
                                    "[((1, 0),), ((3, 0),), ((2, 1),), ((0, 5),), (('x', None),), "
                                    "(((1, 2), 't'),), ((4.0, -1),), (('', ''),)]",
                                    True),
 'itemsplit:val_truthy_bool:ordered': (('return', 'tuple', "({'b': 2, 'a': 1}, {'c': 0})"),
                                       "[(('b', 2),), (('a', 1),), (('c', 0),)]",
                                       True),
 'itemsplit:val_truthy_bool:empty': (('return', 'tuple', '({}, {})'), '[]', True),
 'itemsplit:key_is_str:data': (('return',
                                'tuple',
                                "({'x': None, '': ''}, {1: 0, 3: 0, 2: 1, 0: 5, (1, 2): 't', 4.0: "
                                '-1})'),
                               "[((1, 0),), ((3, 0),), ((2, 1),), ((0, 5),), (('x', None),), (((1, "
                               "2), 't'),), ((4.0, -1),), (('', ''),)]",
                               True),
 'itemsplit:key_is_str:ordered': (('return', 'tuple', "({'b': 2, 'a': 1, 'c': 0}, {})"),
                                  "[(('b', 2),), (('a', 1),), (('c', 0),)]",
                                  True),
 'itemsplit:key_is_str:empty': (('return', 'tuple', '({}, {})'), '[]', True),
 'itemsplit:always_true:data': (('return',
                                 'tuple',
                                 "({1: 0, 3: 0, 2: 1, 0: 5, 'x': None, (1, 2): 't', 4.0: -1, '': "
                                 "''}, {})"),
                                "[((1, 0),), ((3, 0),), ((2, 1),), ((0, 5),), (('x', None),), "
                                "(((1, 2), 't'),), ((4.0, -1),), (('', ''),)]",
                                True),
 'itemsplit:always_true:ordered': (('return', 'tuple', "({'b': 2, 'a': 1, 'c': 0}, {})"),
                                   "[(('b', 2),), (('a', 1),), (('c', 0),)]",
                                   True),
 'itemsplit:always_true:empty': (('return', 'tuple', '({}, {})'), '[]', True),
 'itemsplit:always_false:data': (('return',
                                  'tuple',
                                  "({}, {1: 0, 3: 0, 2: 1, 0: 5, 'x': None, (1, 2): 't', 4.0: -1, "
                                  "'': ''})"),
                                 "[((1, 0),), ((3, 0),), ((2, 1),), ((0, 5),), (('x', None),), "
                                 "(((1, 2), 't'),), ((4.0, -1),), (('', ''),)]",
                                 True),
 'itemsplit:always_false:ordered': (('return', 'tuple', "({}, {'b': 2, 'a': 1, 'c': 0})"),
                                    "[(('b', 2),), (('a', 1),), (('c', 0),)]",
                                    True),
 'itemsplit:always_false:empty': (('return', 'tuple', '({}, {})'), '[]', True),
 'itemsplit:ints_1_0:data': (('return',
                              'tuple',
                              "({2: 1, 0: 5, (1, 2): 't', 4.0: -1}, {1: 0, 3: 0, 'x': None, '': "
                              "''})"),
                             "[((1, 0),), ((3, 0),), ((2, 1),), ((0, 5),), (('x', None),), (((1, "
                             "2), 't'),), ((4.0, -1),), (('', ''),)]",
                             True),
 'itemsplit:ints_1_0:ordered': (('return', 'tuple', "({'b': 2, 'a': 1}, {'c': 0})"),
                                "[(('b', 2),), (('a', 1),), (('c', 0),)]",
                                True),
 'itemsplit:ints_1_0:empty': (('return', 'tuple', '({}, {})'), '[]', True),
 'itemsplit:floats:data': (('return',
                            'tuple',
                            "({2: 1, 0: 5, (1, 2): 't', 4.0: -1}, {1: 0, 3: 0, 'x': None, '': "
                            "''})"),
                           "[((1, 0),), ((3, 0),), ((2, 1),), ((0, 5),), (('x', None),), (((1, 2), "
                           "'t'),), ((4.0, -1),), (('', ''),)]",
                           True),
 'itemsplit:floats:ordered': (('return', 'tuple', "({'b': 2, 'a': 1}, {'c': 0})"),
                              "[(('b', 2),), (('a', 1),), (('c', 0),)]",
                              True),
 'itemsplit:floats:empty': (('return', 'tuple', '({}, {})'), '[]', True),
 'itemsplit:raw_value:data': (('return', 'tuple', '({2: 1}, {1: 0, 3: 0})'),
                              "[((1, 0),), ((3, 0),), ((2, 1),), ((0, 5),), (('x', None),), (((1, "
                              "2), 't'),), ((4.0, -1),), (('', ''),)]",
                              True),
 'itemsplit:raw_value:ordered': (('return', 'tuple', "({'a': 1}, {'c': 0})"),
                                 "[(('b', 2),), (('a', 1),), (('c', 0),)]",
                                 True),
 'itemsplit:raw_value:empty': (('return', 'tuple', '({}, {})'), '[]', True),
 'itemsplit:none:data': (('return', 'tuple', '({}, {})'),
                         "[((1, 0),), ((3, 0),), ((2, 1),), ((0, 5),), (('x', None),), (((1, 2), "
                         "'t'),), ((4.0, -1),), (('', ''),)]",
                         True),
 'itemsplit:none:ordered': (('return', 'tuple', '({}, {})'),
                            "[(('b', 2),), (('a', 1),), (('c', 0),)]",
                            True),
 'itemsplit:none:empty': (('return', 'tuple', '({}, {})'), '[]', True),
 'itemsplit:strings:data': (('return', 'tuple', '({}, {})'),
                            "[((1, 0),), ((3, 0),), ((2, 1),), ((0, 5),), (('x', None),), (((1, "
                            "2), 't'),), ((4.0, -1),), (('', ''),)]",
                            True),
 'itemsplit:strings:ordered': (('return', 'tuple', '({}, {})'),
                               "[(('b', 2),), (('a', 1),), (('c', 0),)]",
                               True),
 'itemsplit:strings:empty': (('return', 'tuple', '({}, {})'), '[]', True),
 'itemsplit:unhashable:data': (('raise', 'TypeError', "unhashable type: 'list'"),
                               '[((1, 0),)]',
                               True),
 'itemsplit:unhashable:ordered': (('raise', 'TypeError', "unhashable type: 'list'"),
                                  "[(('b', 2),)]",
                                  True),
 'itemsplit:unhashable:empty': (('return', 'tuple', '({}, {})'), '[]', True),
 'itemsplit:raises:data': (('raise', 'RuntimeError', 'boom ((1, 0),)'), '[((1, 0),)]', True),
 'itemsplit:raises:ordered': (('raise', 'RuntimeError', "boom (('b', 2),)"), "[(('b', 2),)]", True),
 'itemsplit:raises:empty': (('return', 'tuple', '({}, {})'), '[]', True),
 'itemsplit:not_callable_0:data': (('return', 'tuple', '({1: 0}, {0: 5})'), 'None', True),
 'itemsplit:not_callable_0:ordered': (('return', 'tuple', '({}, {})'), 'None', True),
 'itemsplit:not_callable_0:empty': (('return', 'tuple', '({}, {})'), 'None', True),
 'itemsplit:not_callable_1:data': (('return', 'tuple', '({2: 1}, {1: 0, 3: 0})'), 'None', True),
 'itemsplit:not_callable_1:ordered': (('return', 'tuple', "({'a': 1}, {'c': 0})"), 'None', True),
 'itemsplit:not_callable_1:empty': (('return', 'tuple', '({}, {})'), 'None', True),
 'itemsplit:not_callable_str:data': (('raise',
                                      'TypeError',
                                      'tuple indices must be integers or slices, not str'),
                                     'None',
                                     True),
 'itemsplit:not_callable_str:ordered': (('raise',
                                         'TypeError',
                                         'tuple indices must be integers or slices, not str'),
                                        'None',
                                        True),
 'itemsplit:not_callable_str:empty': (('return', 'tuple', '({}, {})'), 'None', True),
 'itemsplit:not_callable_none:data': (('raise',
                                       'TypeError',
                                       'tuple indices must be integers or slices, not NoneType'),
                                      'None',
                                      True),
 'itemsplit:not_callable_none:ordered': (('raise',
                                          'TypeError',
                                          'tuple indices must be integers or slices, not NoneType'),
                                         'None',
                                         True),
 'itemsplit:not_callable_none:empty': (('return', 'tuple', '({}, {})'), 'None', True),
 'valsplit:truthy_bool:data': (('return',
                                'tuple',
                                "({2: 1, 0: 5, (1, 2): 't', 4.0: -1}, {1: 0, 3: 0, 'x': None, '': "
                                "''})"),
                               "[(0,), (0,), (1,), (5,), (None,), ('t',), (-1,), ('',)]"),
 'valsplit:truthy_bool:ordered': (('return', 'tuple', "({'b': 2, 'a': 1}, {'c': 0})"),
                                  '[(2,), (1,), (0,)]'),
 'valsplit:truthy_bool:empty': (('return', 'tuple', '({}, {})'), '[]'),
 'valsplit:is_str:data': (('return',
                           'tuple',
                           "({(1, 2): 't', '': ''}, {1: 0, 3: 0, 2: 1, 0: 5, 'x': None, 4.0: -1})"),
                          "[(0,), (0,), (1,), (5,), (None,), ('t',), (-1,), ('',)]"),
 'valsplit:is_str:ordered': (('return', 'tuple', "({}, {'b': 2, 'a': 1, 'c': 0})"),
                             '[(2,), (1,), (0,)]'),
 'valsplit:is_str:empty': (('return', 'tuple', '({}, {})'), '[]'),
 'valsplit:always_true:data': (('return',
                                'tuple',
                                "({1: 0, 3: 0, 2: 1, 0: 5, 'x': None, (1, 2): 't', 4.0: -1, '': "
                                "''}, {})"),
                               "[(0,), (0,), (1,), (5,), (None,), ('t',), (-1,), ('',)]"),
 'valsplit:always_true:ordered': (('return', 'tuple', "({'b': 2, 'a': 1, 'c': 0}, {})"),
                                  '[(2,), (1,), (0,)]'),
 'valsplit:always_true:empty': (('return', 'tuple', '({}, {})'), '[]'),
 'valsplit:always_false:data': (('return',
                                 'tuple',
                                 "({}, {1: 0, 3: 0, 2: 1, 0: 5, 'x': None, (1, 2): 't', 4.0: -1, "
                                 "'': ''})"),
                                "[(0,), (0,), (1,), (5,), (None,), ('t',), (-1,), ('',)]"),
 'valsplit:always_false:ordered': (('return', 'tuple', "({}, {'b': 2, 'a': 1, 'c': 0})"),
                                   '[(2,), (1,), (0,)]'),
 'valsplit:always_false:empty': (('return', 'tuple', '({}, {})'), '[]'),
 'valsplit:ints_1_0:data': (('return',
                             'tuple',
                             "({2: 1, 0: 5, (1, 2): 't', 4.0: -1}, {1: 0, 3: 0, 'x': None, '': "
                             "''})"),
                            "[(0,), (0,), (1,), (5,), (None,), ('t',), (-1,), ('',)]"),
 'valsplit:ints_1_0:ordered': (('return', 'tuple', "({'b': 2, 'a': 1}, {'c': 0})"),
                               '[(2,), (1,), (0,)]'),
 'valsplit:ints_1_0:empty': (('return', 'tuple', '({}, {})'), '[]'),
 'valsplit:raw:data': (('return', 'tuple', '({2: 1}, {1: 0, 3: 0})'),
                       "[(0,), (0,), (1,), (5,), (None,), ('t',), (-1,), ('',)]"),
 'valsplit:raw:ordered': (('return', 'tuple', "({'a': 1}, {'c': 0})"), '[(2,), (1,), (0,)]'),
 'valsplit:raw:empty': (('return', 'tuple', '({}, {})'), '[]'),
 'valsplit:none:data': (('return', 'tuple', '({}, {})'),
                        "[(0,), (0,), (1,), (5,), (None,), ('t',), (-1,), ('',)]"),
 'valsplit:none:ordered': (('return', 'tuple', '({}, {})'), '[(2,), (1,), (0,)]'),
 'valsplit:none:empty': (('return', 'tuple', '({}, {})'), '[]'),
 'valsplit:strings:data': (('return', 'tuple', '({}, {})'),
                           "[(0,), (0,), (1,), (5,), (None,), ('t',), (-1,), ('',)]"),
 'valsplit:strings:ordered': (('return', 'tuple', '({}, {})'), '[(2,), (1,), (0,)]'),
 'valsplit:strings:empty': (('return', 'tuple', '({}, {})'), '[]'),
 'valsplit:unhashable:data': (('raise', 'TypeError', "unhashable type: 'list'"), '[(0,)]'),
 'valsplit:unhashable:ordered': (('raise', 'TypeError', "unhashable type: 'list'"), '[(2,)]'),
 'valsplit:unhashable:empty': (('return', 'tuple', '({}, {})'), '[]'),
 'valsplit:raises:data': (('raise', 'RuntimeError', 'boom (0,)'), '[(0,)]'),
 'valsplit:raises:ordered': (('raise', 'RuntimeError', 'boom (2,)'), '[(2,)]'),
 'valsplit:raises:empty': (('return', 'tuple', '({}, {})'), '[]'),
 'valsplit:not_callable_0:data': (('raise', 'TypeError', "'int' object is not callable"), 'None'),
 'valsplit:not_callable_0:ordered': (('raise', 'TypeError', "'int' object is not callable"),
                                     'None'),
 'valsplit:not_callable_0:empty': (('return', 'tuple', '({}, {})'), 'None'),
 'valsplit:not_callable_none:data': (('raise', 'TypeError', "'NoneType' object is not callable"),
                                     'None'),
 'valsplit:not_callable_none:ordered': (('raise', 'TypeError', "'NoneType' object is not callable"),
                                        'None'),
 'valsplit:not_callable_none:empty': (('return', 'tuple', '({}, {})'), 'None'),
 'valsplit:two_args:data': (('raise',
                             'TypeError',
                             "<lambda>() missing 1 required positional argument: 'y'"),
                            '[(0,)]'),
 'valsplit:two_args:ordered': (('raise',
                                'TypeError',
                                "<lambda>() missing 1 required positional argument: 'y'"),
                               '[(2,)]'),
 'valsplit:two_args:empty': (('return', 'tuple', '({}, {})'), '[]'),
 'valsplit:kw': ('return', 'tuple', "({'b': 1}, {'a': 0})"),
 'keysplit:truthy_bool:data': (('return',
                                'tuple',
                                "({1: 0, 3: 0, 2: 1, 'x': None, (1, 2): 't', 4.0: -1}, {0: 5, '': "
                                "''})"),
                               "[(1,), (3,), (2,), (0,), ('x',), ((1, 2),), (4.0,), ('',)]"),
 'keysplit:truthy_bool:ordered': (('return', 'tuple', "({'b': 2, 'a': 1, 'c': 0}, {})"),
                                  "[('b',), ('a',), ('c',)]"),
 'keysplit:truthy_bool:empty': (('return', 'tuple', '({}, {})'), '[]'),
 'keysplit:is_str:data': (('return',
                           'tuple',
                           "({'x': None, '': ''}, {1: 0, 3: 0, 2: 1, 0: 5, (1, 2): 't', 4.0: -1})"),
                          "[(1,), (3,), (2,), (0,), ('x',), ((1, 2),), (4.0,), ('',)]"),
 'keysplit:is_str:ordered': (('return', 'tuple', "({'b': 2, 'a': 1, 'c': 0}, {})"),
                             "[('b',), ('a',), ('c',)]"),
 'keysplit:is_str:empty': (('return', 'tuple', '({}, {})'), '[]'),
 'keysplit:always_true:data': (('return',
                                'tuple',
                                "({1: 0, 3: 0, 2: 1, 0: 5, 'x': None, (1, 2): 't', 4.0: -1, '': "
                                "''}, {})"),
                               "[(1,), (3,), (2,), (0,), ('x',), ((1, 2),), (4.0,), ('',)]"),
 'keysplit:always_true:ordered': (('return', 'tuple', "({'b': 2, 'a': 1, 'c': 0}, {})"),
                                  "[('b',), ('a',), ('c',)]"),
 'keysplit:always_true:empty': (('return', 'tuple', '({}, {})'), '[]'),
 'keysplit:always_false:data': (('return',
                                 'tuple',
                                 "({}, {1: 0, 3: 0, 2: 1, 0: 5, 'x': None, (1, 2): 't', 4.0: -1, "
                                 "'': ''})"),
                                "[(1,), (3,), (2,), (0,), ('x',), ((1, 2),), (4.0,), ('',)]"),
 'keysplit:always_false:ordered': (('return', 'tuple', "({}, {'b': 2, 'a': 1, 'c': 0})"),
                                   "[('b',), ('a',), ('c',)]"),
 'keysplit:always_false:empty': (('return', 'tuple', '({}, {})'), '[]'),
 'keysplit:ints_1_0:data': (('return',
                             'tuple',
                             "({1: 0, 3: 0, 2: 1, 'x': None, (1, 2): 't', 4.0: -1}, {0: 5, '': "
                             "''})"),
                            "[(1,), (3,), (2,), (0,), ('x',), ((1, 2),), (4.0,), ('',)]"),
 'keysplit:ints_1_0:ordered': (('return', 'tuple', "({'b': 2, 'a': 1, 'c': 0}, {})"),
                               "[('b',), ('a',), ('c',)]"),
 'keysplit:ints_1_0:empty': (('return', 'tuple', '({}, {})'), '[]'),
 'keysplit:raw:data': (('return', 'tuple', '({1: 0}, {0: 5})'),
                       "[(1,), (3,), (2,), (0,), ('x',), ((1, 2),), (4.0,), ('',)]"),
 'keysplit:raw:ordered': (('return', 'tuple', '({}, {})'), "[('b',), ('a',), ('c',)]"),
 'keysplit:raw:empty': (('return', 'tuple', '({}, {})'), '[]'),
 'keysplit:none:data': (('return', 'tuple', '({}, {})'),
                        "[(1,), (3,), (2,), (0,), ('x',), ((1, 2),), (4.0,), ('',)]"),
 'keysplit:none:ordered': (('return', 'tuple', '({}, {})'), "[('b',), ('a',), ('c',)]"),
 'keysplit:none:empty': (('return', 'tuple', '({}, {})'), '[]'),
 'keysplit:strings:data': (('return', 'tuple', '({}, {})'),
                           "[(1,), (3,), (2,), (0,), ('x',), ((1, 2),), (4.0,), ('',)]"),
 'keysplit:strings:ordered': (('return', 'tuple', '({}, {})'), "[('b',), ('a',), ('c',)]"),
 'keysplit:strings:empty': (('return', 'tuple', '({}, {})'), '[]'),
 'keysplit:unhashable:data': (('raise', 'TypeError', "unhashable type: 'list'"), '[(1,)]'),
 'keysplit:unhashable:ordered': (('raise', 'TypeError', "unhashable type: 'list'"), "[('b',)]"),
 'keysplit:unhashable:empty': (('return', 'tuple', '({}, {})'), '[]'),
 'keysplit:raises:data': (('raise', 'RuntimeError', 'boom (1,)'), '[(1,)]'),
 'keysplit:raises:ordered': (('raise', 'RuntimeError', "boom ('b',)"), "[('b',)]"),
 'keysplit:raises:empty': (('return', 'tuple', '({}, {})'), '[]'),
 'keysplit:not_callable_0:data': (('raise', 'TypeError', "'int' object is not callable"), 'None'),
 'keysplit:not_callable_0:ordered': (('raise', 'TypeError', "'int' object is not callable"),
                                     'None'),
 'keysplit:not_callable_0:empty': (('return', 'tuple', '({}, {})'), 'None'),
 'keysplit:not_callable_none:data': (('raise', 'TypeError', "'NoneType' object is not callable"),
                                     'None'),
 'keysplit:not_callable_none:ordered': (('raise', 'TypeError', "'NoneType' object is not callable"),
                                        'None'),
 'keysplit:not_callable_none:empty': (('return', 'tuple', '({}, {})'), 'None'),
 'keysplit:two_args:data': (('raise',
                             'TypeError',
                             "<lambda>() missing 1 required positional argument: 'y'"),
                            '[(1,)]'),
 'keysplit:two_args:ordered': (('raise',
                                'TypeError',
                                "<lambda>() missing 1 required positional argument: 'y'"),
                               "[('b',)]"),
 'keysplit:two_args:empty': (('return', 'tuple', '({}, {})'), '[]'),
 'keysplit:kw': ('return', 'tuple', "({'a': 0, 'b': 1}, {})"),
 'itemsplit:not_a_mapping': ('raise', 'AttributeError', "'list' object has no attribute 'items'"),
 'itemsplit:none': ('raise', 'AttributeError', "'NoneType' object has no attribute 'items'"),
 'itemsplit:types': ('dict', 'dict'),
 'itemsplit:fresh': ('tuple', True, True),
 'valsplit:not_a_mapping': ('raise', 'AttributeError', "'list' object has no attribute 'items'"),
 'valsplit:none': ('raise', 'AttributeError', "'NoneType' object has no attribute 'items'"),
 'valsplit:types': ('dict', 'dict'),
 'valsplit:fresh': ('tuple', True, True),
 'keysplit:not_a_mapping': ('raise', 'AttributeError', "'list' object has no attribute 'items'"),
 'keysplit:none': ('raise', 'AttributeError', "'NoneType' object has no attribute 'items'"),
 'keysplit:types': ('dict', 'dict'),
 'keysplit:fresh': ('tuple', True, True),
 'assoc': ('return', 'dict', "{'a': 2, 'k': 1}"),
 'assoc:overwrite': ('return', 'dict', "{'a': 1, 'b': 3}"),
 'dissoc:list': ('return', 'dict', "{'b': 3}"),
 'dissoc:str': ('return', 'dict', "{'c': 5}"),
 'dissoc:int': ('raise', 'TypeError', "argument of type 'int' is not iterable"),
 'dissoc:int_empty': ('return', 'dict', '{}'),
 'dissoc:unhashable_key_lookup': ('return', 'dict', '{(1,): 3}'),
 'zip_default': ('return', 'dict', "{'a': [1, 4], 'b': [2, None], 'c': [None, 3]}"),
 'zip_default:default': ('return', 'dict', "{'a': [1, 'x', 'x'], 'b': ['x', 2, 'x']}"),
 'zip_default:none': ('return', 'dict', '{}'),
 'apply_to_items': ('return', 'dict', "{'a': '1', 'b': 2}"),
 'apply_to_items:default': ('return', 'dict', "{'a': '1', 'b': 4}"),
 'copy_items:empty': ('return',
                      'dict',
                      "{'a': 1, 'b': {'c': 2, 'd': {'e': 4}, 'n': None}, 'l': [10, 20, {'z': 30}], "
                      "'s': 'text', '': {'': 0}, 'dotted.key': 5, 0: {1: 'int keys'}, 'sentinel': "
                      '<sentinel>}',
                      True,
                      True,
                      {'b': True, 'l': True, '': True}),
 'move_items:empty': ('return',
                      'dict',
                      "{'a': 1, 'b': {'c': 2, 'd': {'e': 4}, 'n': None}, 'l': [10, 20, {'z': 30}], "
                      "'s': 'text', '': {'': 0}, 'dotted.key': 5, 0: {1: 'int keys'}, 'sentinel': "
                      '<object>}',
                      True,
                      False,
                      {'b': False, 'l': False, '': False}),
 'copy_items:multiple_dest': ('return',
                              'dict',
                              "{'a': 1, 'b': {'c': 2, 'd': 1, 'n': None}, 'l': [10, 20, {'z': "
                              "30}], 's': 'text', '': {'': 0}, 'dotted.key': 5, 0: {1: 'int "
                              "keys'}, 'sentinel': <sentinel>}",
                              True,
                              False,
                              {'b': False, 'l': True, '': True}),
 'move_items:multiple_dest': ('return',
                              'dict',
                              "{'b': {'c': 2, 'd': 1, 'n': None}, 'l': [10, 20, {'z': 30}], 's': "
                              "'text', '': {'': 0}, 'dotted.key': 5, 0: {1: 'int keys'}, "
                              "'sentinel': <object>}",
                              True,
                              False,
                              {'b': False, 'l': False, '': False}),
 'copy_items:multiple_src': ('return',
                             'dict',
                             "{'a': 1, 'b': {'c': 2, 'd': {'e': 4}, 'n': None}, 'l': [10, 20, "
                             "{'z': 30}], 's': 'text', '': {'': 0}, 'dotted.key': 5, 0: {1: 'int "
                             "keys'}, 'sentinel': <sentinel>, 'd': 2}",
                             True,
                             False,
                             {'b': True, 'l': True, '': True}),
 'move_items:multiple_src': ('return',
                             'dict',
                             "{'a': 1, 'b': {'d': {'e': 4}, 'n': None}, 'l': [10, 20, {'z': 30}], "
                             "'s': 'text', '': {'': 0}, 'dotted.key': 5, 0: {1: 'int keys'}, "
                             "'sentinel': <object>, 'd': 2}",
                             True,
                             False,
                             {'b': False, 'l': False, '': False}),
 'copy_items:missing': ('return',
                        'dict',
                        "{'a': 1, 'b': {'c': 2, 'd': {'e': 4}, 'n': None}, 'l': [10, 20, {'z': "
                        "30}], 's': 'text', '': {'': 0}, 'dotted.key': 5, 0: {1: 'int keys'}, "
                        "'sentinel': <sentinel>}",
                        True,
                        True,
                        {'b': True, 'l': True, '': True}),
 'move_items:missing': ('return',
                        'dict',
                        "{'a': 1, 'b': {'c': 2, 'd': {'e': 4}, 'n': None}, 'l': [10, 20, {'z': "
                        "30}], 's': 'text', '': {'': 0}, 'dotted.key': 5, 0: {1: 'int keys'}, "
                        "'sentinel': <object>}",
                        True,
                        False,
                        {'b': False, 'l': False, '': False}),
 'copy_items:missing_multiple': ('return',
                                 'dict',
                                 "{'a': 1, 'b': {'c': 2, 'd': {'e': 4}, 'n': None}, 'l': [10, 20, "
                                 "{'z': 30}], 's': 'text', '': {'': 0}, 'dotted.key': 5, 0: {1: "
                                 "'int keys'}, 'sentinel': <sentinel>}",
                                 True,
                                 True,
                                 {'b': True, 'l': True, '': True}),
 'move_items:missing_multiple': ('return',
                                 'dict',
                                 "{'a': 1, 'b': {'c': 2, 'd': {'e': 4}, 'n': None}, 'l': [10, 20, "
                                 "{'z': 30}], 's': 'text', '': {'': 0}, 'dotted.key': 5, 0: {1: "
                                 "'int keys'}, 'sentinel': <object>}",
                                 True,
                                 False,
                                 {'b': False, 'l': False, '': False}),
 'copy_items:several': ('return',
                        'dict',
                        "{'a': 2, 'b': {'c': 2, 'd': {'e': 4}, 'n': None}, 'l': [10, 20, {'z': "
                        "30}], 's': 'text', '': {'': 0}, 'dotted.key': 5, 0: {1: 'int keys'}, "
                        "'sentinel': <sentinel>, 'x': 1, 'y': {'z': 4}}",
                        True,
                        False,
                        {'b': True, 'l': True, '': True}),
 'move_items:several': ('return',
                        'dict',
                        "{'b': {'d': {}, 'n': None}, 'l': [10, 20, {'z': 30}], 's': 'text', '': "
                        "{'': 0}, 'dotted.key': 5, 0: {1: 'int keys'}, 'sentinel': <object>, 'x': "
                        "1, 'y': {'z': 4}}",
                        True,
                        False,
                        {'b': False, 'l': False, '': False}),
 'copy_items:chained': ('return',
                        'dict',
                        "{'a': 1, 'b': {'c': 2, 'd': {'e': 4}, 'n': None}, 'l': [10, 20, {'z': "
                        "30}], 's': 'text', '': {'': 0}, 'dotted.key': 5, 0: {1: 'int keys'}, "
                        "'sentinel': <sentinel>, 'x': 1}",
                        True,
                        False,
                        {'b': True, 'l': True, '': True}),
 'move_items:chained': ('return',
                        'dict',
                        "{'b': {'c': 2, 'd': {'e': 4}, 'n': None}, 'l': [10, 20, {'z': 30}], 's': "
                        "'text', '': {'': 0}, 'dotted.key': 5, 0: {1: 'int keys'}, 'sentinel': "
                        '<object>}',
                        True,
                        False,
                        {'b': False, 'l': False, '': False}),
 'copy_items:none_value': ('return',
                           'dict',
                           "{'a': 1, 'b': {'c': 2, 'd': {'e': 4}, 'n': None}, 'l': [10, 20, {'z': "
                           "30}], 's': 'text', '': {'': 0}, 'dotted.key': 5, 0: {1: 'int keys'}, "
                           "'sentinel': <sentinel>, 'x': None}",
                           True,
                           False,
                           {'b': True, 'l': True, '': True}),
 'move_items:none_value': ('return',
                           'dict',
                           "{'a': 1, 'b': {'c': 2, 'd': {'e': 4}}, 'l': [10, 20, {'z': 30}], 's': "
                           "'text', '': {'': 0}, 'dotted.key': 5, 0: {1: 'int keys'}, 'sentinel': "
                           "<object>, 'x': None}",
                           True,
                           False,
                           {'b': False, 'l': False, '': False}),
 'copy_items:list_index': ('return',
                           'dict',
                           "{'a': 1, 'b': {'c': 2, 'd': {'e': 4}, 'n': None}, 'l': [10, 20, {'z': "
                           "30}], 's': 'text', '': {'': 0}, 'dotted.key': 5, 0: {1: 'int keys'}, "
                           "'sentinel': <sentinel>, 'x': 20, 'y': 30}",
                           True,
                           False,
                           {'b': True, 'l': True, '': True}),
 'move_items:list_index': ('raise', 'TypeError', 'pop expected at most 1 argument, got 2', True),
 'copy_items:str_source': ('return',
                           'dict',
                           "{'a': 1, 'b': {'c': 2, 'd': {'e': 4}, 'n': None}, 'l': [10, 20, {'z': "
                           "30}], 's': 'text', '': {'': 0}, 'dotted.key': 5, 0: {1: 'int keys'}, "
                           "'sentinel': <sentinel>, 'x': 1, 'y': 2, 'z': {'e': 4}}",
                           True,
                           False,
                           {'b': True, 'l': True, '': True}),
 'move_items:str_source': ('return',
                           'dict',
                           "{'b': {'n': None}, 'l': [10, 20, {'z': 30}], 's': 'text', '': {'': 0}, "
                           "'dotted.key': 5, 0: {1: 'int keys'}, 'sentinel': <object>, 'x': 1, "
                           "'y': 2, 'z': {'e': 4}}",
                           True,
                           False,
                           {'b': False, 'l': False, '': False}),
 'copy_items:str_dest': ('return',
                         'dict',
                         "{'a': 1, 'b': {'c': 2, 'd': {'e': 4}, 'n': None}, 'l': [10, 20, {'z': "
                         "30}], 's': 'text', '': {'': 0}, 'dotted.key': 5, 0: {1: 'int keys'}, "
                         "'sentinel': <sentinel>, 'x': {'y': 1}}",
                         True,
                         False,
                         {'b': True, 'l': True, '': True}),
 'move_items:str_dest': ('return',
                         'dict',
                         "{'b': {'c': 2, 'd': {'e': 4}, 'n': None}, 'l': [10, 20, {'z': 30}], 's': "
                         "'text', '': {'': 0}, 'dotted.key': 5, 0: {1: 'int keys'}, 'sentinel': "
                         "<object>, 'x': {'y': 1}}",
                         True,
                         False,
                         {'b': False, 'l': False, '': False}),
 'copy_items:through_scalar': ('return',
                               'dict',
                               "{'a': 1, 'b': {'c': 2, 'd': {'e': 4}, 'n': None}, 'l': [10, 20, "
                               "{'z': 30}], 's': 'text', '': {'': 0}, 'dotted.key': 5, 0: {1: 'int "
                               "keys'}, 'sentinel': <sentinel>, 'y': 't'}",
                               True,
                               False,
                               {'b': True, 'l': True, '': True}),
 'move_items:through_scalar': ('raise',
                               'AttributeError',
                               "'int' object has no attribute 'pop'",
                               True),
 'copy_items:subtree': ('return',
                        'dict',
                        "{'a': 1, 'b': {'c': 2, 'd': {'e': 4}, 'n': None}, 'l': [10, 20, {'z': "
                        "30}], 's': 'text', '': {'': 0}, 'dotted.key': 5, 0: {1: 'int keys'}, "
                        "'sentinel': <sentinel>, 'new': {'tree': {'c': 2, 'd': {'e': 4}, 'n': "
                        'None}}}',
                        True,
                        False,
                        {'b': True, 'l': True, '': True}),
 'move_items:subtree': ('return',
                        'dict',
                        "{'a': 1, 'l': [10, 20, {'z': 30}], 's': 'text', '': {'': 0}, "
                        "'dotted.key': 5, 0: {1: 'int keys'}, 'sentinel': <object>, 'new': "
                        "{'tree': {'c': 2, 'd': {'e': 4}, 'n': None}}}",
                        True,
                        False,
                        {'b': False, 'l': False, '': False}),
 'copy_items:overwrite_subtree': ('return',
                                  'dict',
                                  "{'a': 1, 'b': 1, 'l': [10, 20, {'z': 30}], 's': 'text', '': "
                                  "{'': 0}, 'dotted.key': 5, 0: {1: 'int keys'}, 'sentinel': "
                                  '<sentinel>}',
                                  True,
                                  False,
                                  {'b': False, 'l': True, '': True}),
 'move_items:overwrite_subtree': ('return',
                                  'dict',
                                  "{'b': 1, 'l': [10, 20, {'z': 30}], 's': 'text', '': {'': 0}, "
                                  "'dotted.key': 5, 0: {1: 'int keys'}, 'sentinel': <object>}",
                                  True,
                                  False,
                                  {'b': False, 'l': False, '': False}),
 'copy_items:dest_through_scalar': ('raise', 'TypeError', "'int' object is not iterable", True),
 'move_items:dest_through_scalar': ('raise', 'TypeError', "'int' object is not iterable", True),
 'copy_items:empty_source': ('return',
                             'dict',
                             "{'a': 1, 'b': {'c': 2, 'd': {'e': 4}, 'n': None}, 'l': [10, 20, "
                             "{'z': 30}], 's': 'text', '': {'': 0}, 'dotted.key': 5, 0: {1: 'int "
                             "keys'}, 'sentinel': <sentinel>, 'x': {'a': 1, 'b': {'c': 2, 'd': "
                             "{'e': 4}, 'n': None}, 'l': [10, 20, {'z': 30}], 's': 'text', '': "
                             "{'': 0}, 'dotted.key': 5, 0: {1: 'int keys'}, 'sentinel': "
                             '<sentinel>}}',
                             True,
                             False,
                             {'b': True, 'l': True, '': True}),
 'move_items:empty_source': ('raise',
                             'ValueError',
                             'not enough values to unpack (expected at least 1, got 0)',
                             True),
 'copy_items:empty_dest': ('raise', 'StopIteration', '', True),
 'move_items:empty_dest': ('raise', 'StopIteration', '', True),
 'copy_items:int_keys': ('return',
                         'dict',
                         "{'a': 1, 'b': {'c': 2, 'd': {'e': 4}, 'n': None}, 'l': [10, 20, {'z': "
                         "30}], 's': 'text', '': {'': 0}, 'dotted.key': 5, 0: {1: 'int keys'}, "
                         "'sentinel': <sentinel>, 'x': 'int keys'}",
                         True,
                         False,
                         {'b': True, 'l': True, '': True}),
 'move_items:int_keys': ('return',
                         'dict',
                         "{'a': 1, 'b': {'c': 2, 'd': {'e': 4}, 'n': None}, 'l': [10, 20, {'z': "
                         "30}], 's': 'text', '': {'': 0}, 'dotted.key': 5, 0: {}, 'sentinel': "
                         "<object>, 'x': 'int keys'}",
                         True,
                         False,
                         {'b': False, 'l': False, '': False}),
 'copy_items:source_not_iterable': ('return',
                                    'dict',
                                    "{'a': 1, 'b': {'c': 2, 'd': {'e': 4}, 'n': None}, 'l': [10, "
                                    "20, {'z': 30}], 's': 'text', '': {'': 0}, 'dotted.key': 5, 0: "
                                    "{1: 'int keys'}, 'sentinel': <sentinel>}",
                                    True,
                                    True,
                                    {'b': True, 'l': True, '': True}),
 'move_items:source_not_iterable': ('raise',
                                    'TypeError',
                                    'cannot unpack non-iterable int object',
                                    True),
 'copy_items:dest_not_iterable': ('raise', 'TypeError', "'int' object is not iterable", True),
 'move_items:dest_not_iterable': ('raise', 'TypeError', "'int' object is not iterable", True),
 'copy_items:sentinel_value': ('return',
                               'dict',
                               "{'a': 1, 'b': {'c': 2, 'd': {'e': 4}, 'n': None}, 'l': [10, 20, "
                               "{'z': 30}], 's': 'text', '': {'': 0}, 'dotted.key': 5, 0: {1: 'int "
                               "keys'}, 'sentinel': <sentinel>}",
                               True,
                               True,
                               {'b': True, 'l': True, '': True}),
 'move_items:sentinel_value': ('return',
                               'dict',
                               "{'a': 1, 'b': {'c': 2, 'd': {'e': 4}, 'n': None}, 'l': [10, 20, "
                               "{'z': 30}], 's': 'text', '': {'': 0}, 'dotted.key': 5, 0: {1: 'int "
                               "keys'}}",
                               True,
                               False,
                               {'b': False, 'l': False, '': False}),
 'copy_items:single_source': ('return',
                              'dict',
                              "{'a': 1, 'b': {'c': 2, 'd': {'e': 4}, 'n': None}, 'l': [10, 20, "
                              "{'z': 30}], 's': 'text', '': {'': 0}, 'dotted.key': 5, 0: {1: 'int "
                              "keys'}, 'sentinel': <sentinel>, 'x': 1}",
                              True,
                              False,
                              {'b': True, 'l': True, '': True}),
 'move_items:single_source': ('return',
                              'dict',
                              "{'b': {'c': 2, 'd': {'e': 4}, 'n': None}, 'l': [10, 20, {'z': 30}], "
                              "'s': 'text', '': {'': 0}, 'dotted.key': 5, 0: {1: 'int keys'}, "
                              "'sentinel': <object>, 'x': 1}",
                              True,
                              False,
                              {'b': False, 'l': False, '': False}),
 'copy_items:head_missing': ('return',
                             'dict',
                             "{'a': 1, 'b': {'c': 2, 'd': {'e': 4}, 'n': None}, 'l': [10, 20, "
                             "{'z': 30}], 's': 'text', '': {'': 0}, 'dotted.key': 5, 0: {1: 'int "
                             "keys'}, 'sentinel': <sentinel>}",
                             True,
                             True,
                             {'b': True, 'l': True, '': True}),
 'move_items:head_missing': ('return',
                             'dict',
                             "{'a': 1, 'b': {'c': 2, 'd': {'e': 4}, 'n': None}, 'l': [10, 20, "
                             "{'z': 30}], 's': 'text', '': {'': 0}, 'dotted.key': 5, 0: {1: 'int "
                             "keys'}, 'sentinel': <object>}",
                             True,
                             False,
                             {'b': False, 'l': False, '': False}),
 'copy_items:head_is_list': ('return',
                             'dict',
                             "{'a': 1, 'b': {'c': 2, 'd': {'e': 4}, 'n': None}, 'l': [10, 20, "
                             "{'z': 30}], 's': 'text', '': {'': 0}, 'dotted.key': 5, 0: {1: 'int "
                             "keys'}, 'sentinel': <sentinel>, 'x': 20}",
                             True,
                             False,
                             {'b': True, 'l': True, '': True}),
 'move_items:head_is_list': ('raise', 'TypeError', 'pop expected at most 1 argument, got 2', True),
 'copy_items:head_is_str': ('return',
                            'dict',
                            "{'a': 1, 'b': {'c': 2, 'd': {'e': 4}, 'n': None}, 'l': [10, 20, {'z': "
                            "30}], 's': 'text', '': {'': 0}, 'dotted.key': 5, 0: {1: 'int keys'}, "
                            "'sentinel': <sentinel>, 'x': 't'}",
                            True,
                            False,
                            {'b': True, 'l': True, '': True}),
 'move_items:head_is_str': ('raise', 'AttributeError', "'str' object has no attribute 'pop'", True),
 'copy_items:same_source_twice': ('return',
                                  'dict',
                                  "{'a': 1, 'b': {'c': 2, 'd': {'e': 4}, 'n': None}, 'l': [10, 20, "
                                  "{'z': 30}], 's': 'text', '': {'': 0}, 'dotted.key': 5, 0: {1: "
                                  "'int keys'}, 'sentinel': <sentinel>, 'x': 2, 'y': 2}",
                                  True,
                                  False,
                                  {'b': True, 'l': True, '': True}),
 'move_items:same_source_twice': ('return',
                                  'dict',
                                  "{'a': 1, 'b': {'d': {'e': 4}, 'n': None}, 'l': [10, 20, {'z': "
                                  "30}], 's': 'text', '': {'': 0}, 'dotted.key': 5, 0: {1: 'int "
                                  "keys'}, 'sentinel': <object>, 'x': 2, 'y': 2}",
                                  True,
                                  False,
                                  {'b': False, 'l': False, '': False}),
 'copy_items:move_then_reuse': ('return',
                                'dict',
                                "{'a': 1, 'b': {'c': 2, 'd': {'e': 4}, 'n': None}, 'l': [10, 20, "
                                "{'z': 30}], 's': 'text', '': {'': 0}, 'dotted.key': 5, 0: {1: "
                                "'int keys'}, 'sentinel': <sentinel>, 'x': {'e': 4}, 'y': 4}",
                                True,
                                False,
                                {'b': True, 'l': True, '': True}),
 'move_items:move_then_reuse': ('return',
                                'dict',
                                "{'a': 1, 'b': {'c': 2, 'n': None}, 'l': [10, 20, {'z': 30}], 's': "
                                "'text', '': {'': 0}, 'dotted.key': 5, 0: {1: 'int keys'}, "
                                "'sentinel': <object>, 'x': {'e': 4}, 'y': 4}",
                                True,
                                False,
                                {'b': False, 'l': False, '': False}),
 'copy_items:empty_source_move': ('return',
                                  'dict',
                                  "{'a': 1, 'b': {'c': 2, 'd': {'e': 4}, 'n': None}, 'l': [10, 20, "
                                  "{'z': 30}], 's': 'text', '': {'': 0}, 'dotted.key': 5, 0: {1: "
                                  "'int keys'}, 'sentinel': <sentinel>, 'x': {'a': 1, 'b': {'c': "
                                  "2, 'd': {'e': 4}, 'n': None}, 'l': [10, 20, {'z': 30}], 's': "
                                  "'text', '': {'': 0}, 'dotted.key': 5, 0: {1: 'int keys'}, "
                                  "'sentinel': <sentinel>}}",
                                  True,
                                  False,
                                  {'b': True, 'l': True, '': True}),
 'move_items:empty_source_move': ('raise',
                                  'ValueError',
                                  'not enough values to unpack (expected at least 1, got 0)',
                                  True),
 'copy_items:kw': ('return', 'dict', "{'a': 1, 'x': 1}"),
 'move_items:kw': ('return', 'dict', "{'x': 1}"),
 'copy_items:not_mapping': ('raise',
                            'TypeError',
                            'cannot convert dictionary update sequence element #0 to a sequence'),
 'move_items:not_mapping': ('raise',
                            'TypeError',
                            'cannot convert dictionary update sequence element #0 to a sequence'),
 'copy_items:instructions_list': ('raise',
                                  'AttributeError',
                                  "'list' object has no attribute 'items'"),
 'move_items:instructions_list': ('raise',
                                  'AttributeError',
                                  "'list' object has no attribute 'items'"),
 "key_exists:'a'": ('return', 'bool', 'True'),
 "key_exists:'z'": ('return', 'bool', 'False'),
 "key_exists:'b.c'": ('return', 'bool', 'True'),
 "key_exists:'a.b'": ('return', 'bool', 'False'),
 "key_exists:'b.d.e'": ('return', 'bool', 'True'),
 "key_exists:'b.d.f'": ('return', 'bool', 'False'),
 "key_exists:'b.n'": ('return', 'bool', 'True'),
 "key_exists:'b.n.x'": ('return', 'bool', 'False'),
 "key_exists:['b', 'd', 'e']": ('return', 'bool', 'True'),
 "key_exists:['a', 'b']": ('return', 'bool', 'False'),
 'key_exists:[]': ('return', 'bool', 'True'),
 "key_exists:''": ('return', 'bool', 'True'),
 "key_exists:'.'": ('return', 'bool', 'True'),
 "key_exists:'..'": ('return', 'bool', 'False'),
 "key_exists:'b.'": ('return', 'bool', 'False'),
 "key_exists:'.b'": ('return', 'bool', 'False'),
 "key_exists:'dotted.key'": ('return', 'bool', 'False'),
 "key_exists:['dotted.key']": ('return', 'bool', 'True'),
 "key_exists:('b', 'c')": ('return', 'bool', 'False'),
 "key_exists:('b',)": ('return', 'bool', 'False'),
 "key_exists:['l', 0]": ('return', 'bool', 'True'),
 "key_exists:['l', 3]": ('return', 'bool', 'False'),
 "key_exists:'l.0'": ('return', 'bool', 'False'),
 "key_exists:['l', 2, 'z']": ('return', 'bool', 'True'),
 "key_exists:['s', 0]": ('return', 'bool', 'True'),
 "key_exists:'s.0'": ('return', 'bool', 'False'),
 'key_exists:0': ('raise', 'TypeError', "argument of type 'int' is not iterable"),
 'key_exists:0.5': ('raise', 'TypeError', "argument of type 'float' is not iterable"),
 'key_exists:None': ('raise', 'TypeError', "argument of type 'NoneType' is not iterable"),
 "key_exists:['.']": ('raise', 'AttributeError', "'list' object has no attribute 'split'"),
 "key_exists:['a', '.']": ('raise', 'AttributeError', "'list' object has no attribute 'split'"),
 "key_exists:['b', ['c']]": ('return', 'bool', 'False'),
 "key_exists:b'a'": ('raise', 'TypeError', "a bytes-like object is required, not 'str'"),
 'key_exists:[0, 1]': ('return', 'bool', 'True'),
 'key_exists:[0, 2]': ('return', 'bool', 'False'),
 "key_exists:'sentinel'": ('return', 'bool', 'False'),
 "key_exists:{'a': 1}": ('return', 'bool', 'False'),
 "key_exists:{'.'}": ('raise', 'AttributeError', "'set' object has no attribute 'split'"),
 "key_exists:frozenset({'a'})": ('return', 'bool', 'False'),
 'key_exists:in_list': ('return', 'bool', 'True'),
 'key_exists:in_str': ('return', 'bool', 'False'),
 'key_exists:kw': ('return', 'bool', 'True'),
 'names': ['apply_to_items',
           'assoc',
           'assoc_',
           'assoc_in',
           'concat',
           'copy',
           'copy_items',
           'dissoc',
           'get_in',
           'groupby',
           'itemsplit',
           'key_exists',
           'keyfilter',
           'keysplit',
           'move_items',
           'passthrough',
           'sentinel',
           'unique',
           'valsplit',
           'zip_default']}


def test_equivalent():
    actual = observe()
    assert list(actual) == list(EXPECTED)
    for key, value in actual.items():
        assert value == EXPECTED[key], (key, value, EXPECTED[key])
    assert actual == EXPECTED


if __name__ == "__main__":
    if "--record" in sys.argv:
        import pprint

        pprint.pprint(observe(), width=100, sort_dicts=False)
    else:
        test_equivalent()
        print(f"ok: {len(EXPECTED)} observations identical")
