"""Equivalence check for refactoring 3 (decoders of the image cache).

Run as

    cd /tmp/wt8/e63 && PYTHONPATH=/tmp/wt8/e63 /venv/bin/python _eq/3/equiv.py

The expected values in ``EXPECTED`` were recorded from the unchanged code
(``--record`` prints a fresh table). The script must pass with and without
``patch.diff`` applied. It can also be collected by pytest (``test_equiv``).
"""

import collections
import copy
import functools
import json
import pprint
import sys

import numpy as np

from ceos_alos2.array import Array
from ceos_alos2.hierarchy import Group, Variable
from ceos_alos2.sar_image import caching
from ceos_alos2.sar_image.caching import decoders


def canon(obj):
    """type-preserving, order-preserving text form"""
    if isinstance(obj, Group):
        fields = {"path": obj.path, "url": obj.url, "data": obj.data, "attrs": obj.attrs}
        return f"{type(obj).__name__}({canon(fields)})"
    if isinstance(obj, Variable):
        fields = {"dims": obj.dims, "data": obj.data, "attrs": obj.attrs}
        return f"{type(obj).__name__}({canon(fields)})"
    if isinstance(obj, Array):
        fields = {
            "fs": [type(obj.fs).__name__, obj.fs.path, type(obj.fs.fs).__name__, obj.fs.fs.protocol],
            "url": obj.url,
            "byte_ranges": obj.byte_ranges,
            "shape": obj.shape,
            "dtype": obj.dtype,
            "type_code": obj.type_code,
            "records_per_chunk": obj.records_per_chunk,
            "chunk_offsets": obj.chunk_offsets,
        }
        return f"{type(obj).__name__}({canon(fields)})"
    if isinstance(obj, np.ndarray):
        return f"ndarray<{obj.dtype},{obj.shape}>:{obj.tolist()!r}:{obj.astype(str).tolist()!r}"
    if isinstance(obj, dict):
        items = ", ".join(f"{canon(k)}: {canon(v)}" for k, v in obj.items())
        return f"{type(obj).__name__}{{{items}}}"
    if isinstance(obj, (list, tuple)):
        items = ", ".join(canon(v) for v in obj)
        return f"{type(obj).__name__}[{items}]"
    return f"{type(obj).__name__}:{obj!r}"


def run(func, *args, **kwargs):
    try:
        result = func(*args, **kwargs)
    except Exception as e:  # noqa: BLE001
        return f"raises {type(e).__name__}: {e}"
    return canon(result)


def without(mapping, *names):
    return {k: v for k, v in mapping.items() if k not in names}


class Recording(dict):
    """dict that records the keys it is asked for"""

    def __init__(self, *args, **kwargs):
        super().__init__(*args, **kwargs)
        self.log = []

    def __getitem__(self, key):
        self.log.append(key)
        return super().__getitem__(key)

    def get(self, key, default=None):
        self.log.append(("get", key))
        return super().get(key, default)


def collect():
    results = {}

    # --- untouched helpers the rewritten functions call into
    for name, obj in {
        "empty": {},
        "default": {"a": 1},
        "tuple": {"__type__": "tuple", "data": [2, 3]},
        "array": {"__type__": "array", "data": [1, 2], "dtype": "int8", "encoding": {}},
    }.items():
        results[f"postprocess/{name}"] = run(decoders.postprocess, obj)

    numpy_arrays = {
        "int8": {"__type__": "array", "dtype": "int8", "data": [1, 2], "encoding": {}},
        "float16": {"__type__": "array", "dtype": "float16", "data": [1.5, 2.5], "encoding": {}},
        "bool": {"__type__": "array", "dtype": "bool", "data": [True, False], "encoding": {}},
        "str": {"__type__": "array", "dtype": "<U2", "data": ["a", "bc"], "encoding": {}},
        "2d": {"__type__": "array", "dtype": "uint16", "data": [[1, 2], [3, 4]], "encoding": {}},
        "empty": {"__type__": "array", "dtype": "float32", "data": [], "encoding": {}},
        "0d": {"__type__": "array", "dtype": "int64", "data": 5, "encoding": {}},
        "complex": {"__type__": "array", "dtype": "complex64", "data": [1, 2], "encoding": {}},
        "no-encoding": {"__type__": "array", "dtype": "int8", "data": [1]},
        "overflow": {"__type__": "array", "dtype": "int8", "data": [1000], "encoding": {}},
        "timedelta": {
            "__type__": "array",
            "dtype": "timedelta64[s]",
            "data": [1, 2],
            "encoding": {"units": "s"},
        },
        "timedelta-10ms": {
            "__type__": "array",
            "dtype": "timedelta64[10ms]",
            "data": [1, 2],
            "encoding": {"units": "ms"},
        },
        "datetime-s": {
            "__type__": "array",
            "data": [0, 3600],
            "dtype": "datetime64[s]",
            "encoding": {"units": "s", "reference": "2020-01-01T00:00:00"},
        },
        "datetime-mixed-units": {
            "__type__": "array",
            "dtype": "datetime64[s]",
            "data": [0, 120000],
            "encoding": {"units": "ms", "reference": "1997-05-27T00:00:00.000"},
        },
        "datetime-10s": {
            "__type__": "array",
            "dtype": "datetime64[10s]",
            "data": [0, 10],
            "encoding": {"units": "10s", "reference": "2019-01-01T00:00:00"},
        },
        "datetime-2d": {
            "__type__": "array",
            "dtype": "datetime64[D]",
            "data": [[0, 1], [2, 4]],
            "encoding": {"units": "D", "reference": "2019-01-01"},
        },
        "datetime-empty": {
            "__type__": "array",
            "dtype": "datetime64[ns]",
            "data": [],
            "encoding": {"units": "ns", "reference": "2019-01-01T00:00:00.000000000"},
        },
        "datetime-no-encoding": {"__type__": "array", "dtype": "datetime64[s]", "data": [0]},
        "datetime-no-reference": {
            "__type__": "array",
            "dtype": "datetime64[s]",
            "data": [0],
            "encoding": {"units": "s"},
        },
        "datetime-no-units": {
            "__type__": "array",
            "dtype": "datetime64[s]",
            "data": [0],
            "encoding": {"reference": "2019-01-01"},
        },
        "datetime-bad-units": {
            "__type__": "array",
            "dtype": "datetime64[s]",
            "data": [0],
            "encoding": {"reference": "2019-01-01", "units": "parsec"},
        },
        "datetime-no-data": {
            "__type__": "array",
            "dtype": "datetime64[s]",
            "encoding": {"reference": "2019-01-01", "units": "s"},
        },
        "no-dtype": {"__type__": "array", "data": [1], "encoding": {}},
        "no-data": {"__type__": "array", "dtype": "int8", "encoding": {}},
        "bad-dtype": {"__type__": "array", "dtype": "int7", "data": [1], "encoding": {}},
        "numeric-dtype": {"__type__": "array", "dtype": 5, "data": [1], "encoding": {}},
        "list-dtype": {"__type__": "array", "dtype": ["i", "j"], "data": [1], "encoding": {}},
        "ragged": {"__type__": "array", "dtype": "int8", "data": [[1], [1, 2]], "encoding": {}},
    }
    for name, encoded in numpy_arrays.items():
        results[f"array/{name}"] = run(decoders.decode_array, copy.deepcopy(encoded), 2)
        results[f"datetime/{name}"] = run(decoders.decode_datetime, copy.deepcopy(encoded))

    backend = {
        "__type__": "backend_array",
        "root": "memory:///path/to",
        "url": "file",
        "shape": (4, 3),
        "dtype": "int16",
        "byte_ranges": [(5, 10), (15, 20), (25, 30), (35, 40)],
        "type_code": "IU2",
    }
    for rpc in [1, 2, 3, 4, 100, None, "auto", "12B", -1, 0, 2.5, "nonsense"]:
        results[f"backend/rpc={rpc!r}"] = run(decoders.decode_array, dict(backend), rpc)
    results["backend/keyword"] = run(decoders.decode_array, dict(backend), records_per_chunk=3)
    results["backend/keywords"] = run(
        decoders.decode_array, encoded=dict(backend), records_per_chunk=3
    )
    results["backend/no-rpc"] = run(decoders.decode_array, dict(backend))
    results["backend/complex"] = run(
        decoders.decode_array, backend | {"dtype": "complex64", "type_code": "C*8"}, 4
    )
    results["backend/lists"] = run(
        decoders.decode_array,
        backend | {"shape": [4, 3], "byte_ranges": [[5, 10], [15, 20], [25, 30], [35, 40]]},
        2,
    )
    results["backend/no-type"] = run(decoders.decode_array, without(backend, "__type__"), 2)
    results["backend/other-type"] = run(decoders.decode_array, backend | {"__type__": "x"}, 2)
    results["backend/list-type"] = run(decoders.decode_array, backend | {"__type__": ["array"]}, 2)
    results["backend/file-root"] = run(decoders.decode_array, backend | {"root": "/a/b"}, 2)
    results["backend/file-url-root"] = run(
        decoders.decode_array, backend | {"root": "file:///a/b/"}, 2
    )
    results["backend/bad-protocol"] = run(
        decoders.decode_array, backend | {"root": "nosuchproto://a/b"}, 2
    )
    results["backend/numeric-root"] = run(decoders.decode_array, backend | {"root": 5}, 2)
    results["backend/empty-dict"] = run(decoders.decode_array, {}, 2)
    results["backend/not-a-dict"] = run(decoders.decode_array, [1, 2], 2)
    results["backend/none"] = run(decoders.decode_array, None, 2)
    names = ["root", "type_code", "url", "shape", "dtype", "byte_ranges"]
    for n in range(len(names)):
        kept = {"__type__": "backend_array"} | {name: backend[name] for name in names[:n]}
        results[f"backend/first-{n}-fields"] = run(decoders.decode_array, kept, 2)
    for name in names:
        results[f"backend/without-{name}"] = run(decoders.decode_array, without(backend, name), 2)
    results["backend/bad-shape"] = run(decoders.decode_array, backend | {"shape": None}, 2)
    results["backend/bad-ranges"] = run(decoders.decode_array, backend | {"byte_ranges": 5}, 2)

    # the order in which the fields are read
    for name, encoded in {
        "backend": backend,
        "backend-incomplete": without(backend, "shape"),
        "int8": numpy_arrays["int8"],
        "datetime": numpy_arrays["datetime-mixed-units"],
        "timedelta": numpy_arrays["timedelta"],
    }.items():
        recording = Recording(copy.deepcopy(encoded))
        run(decoders.decode_array, recording, 2)
        results[f"access-order/array-{name}"] = canon(recording.log)

    # --- variables
    variables = {
        "int8": {
            "__type__": "variable",
            "dims": ["x"],
            "data": numpy_arrays["int8"],
            "attrs": {},
        },
        "attrs": {
            "__type__": "variable",
            "dims": ["x", "y"],
            "data": numpy_arrays["2d"],
            "attrs": {"a": 1, "b": (1, 2)},
        },
        "str-dims": {"__type__": "variable", "dims": "x", "data": numpy_arrays["int8"], "attrs": {}},
        "time": {
            "__type__": "variable",
            "dims": ["t"],
            "data": numpy_arrays["datetime-mixed-units"],
            "attrs": {"u": "v"},
        },
        "backend": {
            "__type__": "variable",
            "dims": ["rows", "cols"],
            "data": backend,
            "attrs": {"k": [1]},
        },
        "no-dims": {"__type__": "variable", "data": numpy_arrays["int8"], "attrs": {}},
        "no-attrs": {"__type__": "variable", "dims": ["x"], "data": numpy_arrays["int8"]},
        "no-data": {"__type__": "variable", "dims": ["x"], "attrs": {}},
        "bad-data": {"__type__": "variable", "dims": ["x"], "data": [1, 2], "attrs": {}},
        "type-error": {
            "__type__": "variable",
            "dims": ["x"],
            "data": numpy_arrays["numeric-dtype"],
            "attrs": {},
        },
    }
    for name, encoded in variables.items():
        for rpc in [1, 3]:
            results[f"variable/{name}/rpc={rpc}"] = run(
                decoders.decode_variable, copy.deepcopy(encoded), records_per_chunk=rpc
            )
            results[f"hierarchy/variable-{name}/rpc={rpc}"] = run(
                decoders.decode_hierarchy, copy.deepcopy(encoded), records_per_chunk=rpc
            )

    # --- groups
    def group(data, path="/", url=None, attrs=None, **extra):
        return {"__type__": "group", "path": path, "url": url, "data": data, "attrs": attrs or {}} | extra

    groups = {
        "empty": group({}, path="path", url="abc", attrs={"abc": "def"}),
        "variable": group({"v": variables["int8"]}),
        "backend": group({"v": variables["backend"]}, url="memory:///path/to"),
        "subgroup": group({"g": group({}, path="/g", attrs={"n": "g"})}),
        "nested-order": group(
            {
                "z": variables["attrs"],
                "sub": group(
                    {
                        "inner": group({"t": variables["time"]}, path="/wrong/inner", url="other"),
                        "img": variables["backend"],
                    },
                    path="/sub",
                    attrs={"d": 1},
                ),
                "a": variables["int8"],
                "sub2": group({}, path="/sub2"),
            },
            url="s3://bucket/scene",
            attrs={"k": (1, 2)},
        ),
        "plain-entries": group({"a": {"x": 1}, "b": {"__type__": "array", "data": [1]}, "c": {}}),
        "ordered-data": group(collections.OrderedDict([("b", variables["int8"]), ("a", {})])),
        "int-entry": group({"v": variables["int8"], "bad": 1}),
        "none-entry": group({"bad": None}),
        "list-entry": group({"bad": [variables["int8"]]}),
        "list-data": group([variables["int8"]]),
        "none-data": group(None),
        "str-data": group("abc"),
        "no-data": without(group({}), "data"),
        "no-path": without(group({"v": variables["int8"]}), "path"),
        "no-url": without(group({}), "url"),
        "no-attrs": without(group({}), "attrs"),
        "no-path-and-bad-entry": without(group({"bad": 1}), "path"),
        "none-path": group({"g": group({}, path=None)}, path=None),
        "type-error-entry": group({"ok": variables["int8"], "bad": variables["type-error"]}),
        "nested-type-error": group({"g": group({"bad": variables["type-error"]}, path="/g")}),
        "nested-key-error": group({"g": group({"bad": variables["no-data"]}, path="/g")}),
        "unhashable-entry-type": group({"bad": {"__type__": ["group"]}}),
        "extra-keys": group({}, extra=1),
    }
    for name, encoded in groups.items():
        for rpc in [2, 4]:
            results[f"group/{name}/rpc={rpc}"] = run(
                decoders.decode_group, copy.deepcopy(encoded), records_per_chunk=rpc
            )
            results[f"hierarchy/group-{name}/rpc={rpc}"] = run(
                decoders.decode_hierarchy, copy.deepcopy(encoded), records_per_chunk=rpc
            )
    results["group/positional"] = run(decoders.decode_group, copy.deepcopy(groups["backend"]), 3)
    results["group/no-rpc"] = run(decoders.decode_group, copy.deepcopy(groups["backend"]))
    results["group/not-a-dict"] = run(decoders.decode_group, [1], 2)

    decoded = decoders.decode_group(copy.deepcopy(groups["nested-order"]), records_per_chunk=2)
    results["group/result-types"] = canon(
        [type(decoded.data).__name__, type(decoded["sub"].data).__name__, list(decoded.data)]
    )
    decoded = decoders.decode_group(copy.deepcopy(groups["ordered-data"]), records_per_chunk=2)
    results["group/ordered-result-types"] = canon([type(decoded.data).__name__, list(decoded.data)])

    for name in ["nested-order", "no-data", "no-path-and-bad-entry", "int-entry"]:
        recording = Recording(copy.deepcopy(groups[name]))
        run(decoders.decode_group, recording, 2)
        results[f"access-order/group-{name}"] = canon(recording.log)
        recording = Recording(copy.deepcopy(groups[name]))
        run(decoders.decode_hierarchy, recording, 2)
        results[f"access-order/hierarchy-{name}"] = canon(recording.log)

    # --- decode_hierarchy on anything else
    others = {
        "no-type": {"a": 1},
        "empty": {},
        "none-type": {"__type__": None, "a": 1},
        "array-type": numpy_arrays["int8"],
        "backend-type": backend,
        "tuple-type": {"__type__": "tuple", "data": [1]},
        "unknown-type": {"__type__": "Group", "data": {}},
        "int-type": {"__type__": 1},
        "bool-type": {"__type__": True},
        "float-type": {"__type__": float("nan")},
        "tuple-valued-type": {"__type__": ("group",)},
        "list-type": {"__type__": ["group"]},
        "dict-type": {"__type__": {"group": 1}},
        "nested-unhashable-type": {"__type__": (1, [2])},
    }
    for name, encoded in others.items():
        results[f"hierarchy/{name}"] = run(decoders.decode_hierarchy, encoded, 2)
        results[f"hierarchy/{name}/keyword"] = run(
            decoders.decode_hierarchy, encoded, records_per_chunk=None
        )
    results["hierarchy/identity"] = canon(
        {
            name: decoders.decode_hierarchy(others[name], 2) is others[name]
            for name in ["no-type", "empty", "none-type", "array-type", "unknown-type", "int-type"]
        }
    )
    for name, obj in {"int": 1, "none": None, "list": [1], "str": "group", "group": Group("/", "u", {}, {})}.items():
        results[f"hierarchy/non-dict-{name}"] = run(decoders.decode_hierarchy, obj, 2)
    results["hierarchy/no-rpc"] = run(decoders.decode_hierarchy, {"a": 1})

    # --- the specific decoders are looked up by name in the module at call time
    calls = []
    names = ["decode_datetime", "decode_array", "decode_variable", "decode_group", "decode_hierarchy"]
    originals = {name: getattr(decoders, name) for name in names}

    def spy(name):
        # keeps the signature of the original visible (inspect follows __wrapped__)
        @functools.wraps(originals[name])
        def wrapper(*args, **kwargs):
            calls.append((name, len(args), sorted(kwargs), kwargs.get("records_per_chunk", "-")))
            return originals[name](*args, **kwargs)

        return wrapper

    for name in names:
        setattr(decoders, name, spy(name))
    try:
        results["spied/group"] = run(
            originals["decode_group"], copy.deepcopy(groups["nested-order"]), records_per_chunk=2
        )
        calls.append("--")
        results["spied/hierarchy"] = run(
            originals["decode_hierarchy"], copy.deepcopy(groups["nested-order"]), 3
        )
        calls.append("--")
        results["spied/array"] = run(
            originals["decode_array"], copy.deepcopy(numpy_arrays["datetime-s"]), 3
        )
        calls.append("--")
        results["spied/failing"] = run(
            originals["decode_hierarchy"], copy.deepcopy(groups["type-error-entry"]), 3
        )
    finally:
        for name in names:
            setattr(decoders, name, originals[name])
    results["spied/calls"] = canon(calls)

    def fake_datetime(obj):
        return "fake-datetime"

    decoders.decode_datetime = fake_datetime
    try:
        results["patched/datetime"] = run(decoders.decode_array, numpy_arrays["datetime-s"], 2)
        results["patched/timedelta"] = run(decoders.decode_array, numpy_arrays["timedelta"], 2)
    finally:
        decoders.decode_datetime = originals["decode_datetime"]

    # --- high level
    documents = {
        "group": json.dumps(caching.preprocess(groups["nested-order"])),
        "variable": json.dumps(caching.preprocess(variables["backend"])),
        "plain": '{"a": [1, 2], "b": {"__type__": "tuple", "data": [1, [2]]}}',
        "tuple": '{"__type__": "tuple", "data": [1, 2]}',
        "list-type": '{"__type__": ["group"]}',
        "tuple-type": '{"__type__": {"__type__": "tuple", "data": ["group"]}}',
        "list": "[1, 2]",
        "number": "1",
        "null": "null",
        "empty": "",
        "truncated": '{"__type__": "group", "path": "/", "url": null, "data": {',
        "bad-entry": json.dumps(caching.preprocess(groups["int-entry"])),
        "missing-path": json.dumps(caching.preprocess(groups["no-path"])),
    }
    for name, text in documents.items():
        for rpc in [1, "auto"]:
            results[f"decode/{name}/rpc={rpc}"] = run(caching.decode, text, rpc)

    tree = decoders.decode_hierarchy(copy.deepcopy(groups["nested-order"]), records_per_chunk=2)
    text = caching.encode(tree)
    results["roundtrip/text"] = canon(text)
    results["roundtrip/equal"] = canon(caching.decode(text, 2) == tree)
    results["roundtrip/other-rpc"] = canon(caching.decode(text, 3) == tree)

    return results


EXPECTED = None  # replaced below


def check():
    actual = collect()
    assert list(actual) == list(EXPECTED), "different set of cases"
    failures = [name for name in EXPECTED if actual[name] != EXPECTED[name]]
    for name in failures:
        print(f"MISMATCH {name}:\n  expected {EXPECTED[name]}\n  actual   {actual[name]}")
    assert not failures, failures
    return len(actual)


def test_equiv():
    check()


# EXPECTED-BEGIN
EXPECTED = {'postprocess/empty': 'dict{}',
 'postprocess/default': "dict{str:'a': int:1}",
 'postprocess/tuple': 'tuple[int:2, int:3]',
 'postprocess/array': "dict{str:'__type__': str:'array', str:'data': list[int:1, int:2], "
                      "str:'dtype': str:'int8', str:'encoding': dict{}}",
 'array/int8': "ndarray<int8,(2,)>:[1, 2]:['1', '2']",
 'datetime/int8': "raises KeyError: 'reference'",
 'array/float16': "ndarray<float16,(2,)>:[1.5, 2.5]:['1.5', '2.5']",
 'datetime/float16': "raises KeyError: 'reference'",
 'array/bool': "ndarray<bool,(2,)>:[True, False]:['True', 'False']",
 'datetime/bool': "raises KeyError: 'reference'",
 'array/str': "ndarray<<U2,(2,)>:['a', 'bc']:['a', 'bc']",
 'datetime/str': "raises KeyError: 'reference'",
 'array/2d': "ndarray<uint16,(2, 2)>:[[1, 2], [3, 4]]:[['1', '2'], ['3', '4']]",
 'datetime/2d': "raises KeyError: 'reference'",
 'array/empty': 'ndarray<float32,(0,)>:[]:[]',
 'datetime/empty': "raises KeyError: 'reference'",
 'array/0d': "ndarray<int64,()>:5:'5'",
 'datetime/0d': "raises KeyError: 'reference'",
 'array/complex': "ndarray<complex64,(2,)>:[(1+0j), (2+0j)]:['(1+0j)', '(2+0j)']",
 'datetime/complex': "raises KeyError: 'reference'",
 'array/no-encoding': "ndarray<int8,(1,)>:[1]:['1']",
 'datetime/no-encoding': "raises KeyError: 'encoding'",
 'array/overflow': 'raises OverflowError: Python integer 1000 out of bounds for int8',
 'datetime/overflow': "raises KeyError: 'reference'",
 'array/timedelta': 'ndarray<timedelta64[s],(2,)>:[datetime.timedelta(seconds=1), '
                    "datetime.timedelta(seconds=2)]:['1 seconds', '2 seconds']",
 'datetime/timedelta': "raises KeyError: 'reference'",
 'array/timedelta-10ms': 'ndarray<timedelta64[10ms],(2,)>:[datetime.timedelta(microseconds=10000), '
                         "datetime.timedelta(microseconds=20000)]:['10 milliseconds', '20 "
                         "milliseconds']",
 'datetime/timedelta-10ms': "raises KeyError: 'reference'",
 'array/datetime-s': 'ndarray<datetime64[s],(2,)>:[datetime.datetime(2020, 1, 1, 0, 0), '
                     "datetime.datetime(2020, 1, 1, 1, 0)]:['2020-01-01T00:00:00', "
                     "'2020-01-01T01:00:00']",
 'datetime/datetime-s': 'ndarray<datetime64[s],(2,)>:[datetime.datetime(2020, 1, 1, 0, 0), '
                        "datetime.datetime(2020, 1, 1, 1, 0)]:['2020-01-01T00:00:00', "
                        "'2020-01-01T01:00:00']",
 'array/datetime-mixed-units': 'ndarray<datetime64[ms],(2,)>:[datetime.datetime(1997, 5, 27, 0, '
                               '0), datetime.datetime(1997, 5, 27, 0, '
                               "2)]:['1997-05-27T00:00:00.000', '1997-05-27T00:02:00.000']",
 'datetime/datetime-mixed-units': 'ndarray<datetime64[ms],(2,)>:[datetime.datetime(1997, 5, 27, 0, '
                                  '0), datetime.datetime(1997, 5, 27, 0, '
                                  "2)]:['1997-05-27T00:00:00.000', '1997-05-27T00:02:00.000']",
 'array/datetime-10s': 'ndarray<datetime64[10s],(2,)>:[datetime.datetime(2019, 1, 1, 0, 0), '
                       "datetime.datetime(2019, 1, 1, 0, 1, 40)]:['2019-01-01T00:00:00', "
                       "'2019-01-01T00:01:40']",
 'datetime/datetime-10s': 'ndarray<datetime64[10s],(2,)>:[datetime.datetime(2019, 1, 1, 0, 0), '
                          "datetime.datetime(2019, 1, 1, 0, 1, 40)]:['2019-01-01T00:00:00', "
                          "'2019-01-01T00:01:40']",
 'array/datetime-2d': 'ndarray<datetime64[D],(2, 2)>:[[datetime.date(2019, 1, 1), '
                      'datetime.date(2019, 1, 2)], [datetime.date(2019, 1, 3), datetime.date(2019, '
                      "1, 5)]]:[['2019-01-01', '2019-01-02'], ['2019-01-03', '2019-01-05']]",
 'datetime/datetime-2d': 'ndarray<datetime64[D],(2, 2)>:[[datetime.date(2019, 1, 1), '
                         'datetime.date(2019, 1, 2)], [datetime.date(2019, 1, 3), '
                         "datetime.date(2019, 1, 5)]]:[['2019-01-01', '2019-01-02'], "
                         "['2019-01-03', '2019-01-05']]",
 'array/datetime-empty': 'ndarray<datetime64[ns],(0,)>:[]:[]',
 'datetime/datetime-empty': 'ndarray<datetime64[ns],(0,)>:[]:[]',
 'array/datetime-no-encoding': "raises KeyError: 'encoding'",
 'datetime/datetime-no-encoding': "raises KeyError: 'encoding'",
 'array/datetime-no-reference': "raises KeyError: 'reference'",
 'datetime/datetime-no-reference': "raises KeyError: 'reference'",
 'array/datetime-no-units': "raises KeyError: 'units'",
 'datetime/datetime-no-units': "raises KeyError: 'units'",
 'array/datetime-bad-units': 'raises TypeError: Invalid datetime unit in metadata string '
                             '"[parsec]"',
 'datetime/datetime-bad-units': 'raises TypeError: Invalid datetime unit in metadata string '
                                '"[parsec]"',
 'array/datetime-no-data': "raises KeyError: 'data'",
 'datetime/datetime-no-data': "raises KeyError: 'data'",
 'array/no-dtype': "raises KeyError: 'dtype'",
 'datetime/no-dtype': "raises KeyError: 'reference'",
 'array/no-data': "raises KeyError: 'data'",
 'datetime/no-data': "raises KeyError: 'reference'",
 'array/bad-dtype': "raises TypeError: data type 'int7' not understood",
 'datetime/bad-dtype': "raises KeyError: 'reference'",
 'array/numeric-dtype': "raises TypeError: Cannot interpret '5' as a data type",
 'datetime/numeric-dtype': "raises KeyError: 'reference'",
 'array/list-dtype': "raises TypeError: Field elements must be 2- or 3-tuples, got ''i''",
 'datetime/list-dtype': "raises KeyError: 'reference'",
 'array/ragged': 'raises ValueError: setting an array element with a sequence. The requested array '
                 'has an inhomogeneous shape after 1 dimensions. The detected shape was (2,) + '
                 'inhomogeneous part.',
 'datetime/ragged': "raises KeyError: 'reference'",
 'backend/rpc=1': "Array(dict{str:'fs': list[str:'DirFileSystem', str:'/path/to', "
                  "str:'MemoryFileSystem', str:'memory'], str:'url': str:'file', "
                  "str:'byte_ranges': list[tuple[int:5, int:10], tuple[int:15, int:20], "
                  "tuple[int:25, int:30], tuple[int:35, int:40]], str:'shape': tuple[int:4, "
                  "int:3], str:'dtype': str:'int16', str:'type_code': str:'IU2', "
                  "str:'records_per_chunk': int:1, str:'chunk_offsets': dict{int:0: "
                  "dict{str:'offset': int:5, str:'size': int:5}, int:1: dict{str:'offset': int:15, "
                  "str:'size': int:5}, int:2: dict{str:'offset': int:25, str:'size': int:5}, "
                  "int:3: dict{str:'offset': int:35, str:'size': int:5}}})",
 'backend/rpc=2': "Array(dict{str:'fs': list[str:'DirFileSystem', str:'/path/to', "
                  "str:'MemoryFileSystem', str:'memory'], str:'url': str:'file', "
                  "str:'byte_ranges': list[tuple[int:5, int:10], tuple[int:15, int:20], "
                  "tuple[int:25, int:30], tuple[int:35, int:40]], str:'shape': tuple[int:4, "
                  "int:3], str:'dtype': str:'int16', str:'type_code': str:'IU2', "
                  "str:'records_per_chunk': int:2, str:'chunk_offsets': dict{int:0: "
                  "dict{str:'offset': int:5, str:'size': int:15}, int:1: dict{str:'offset': "
                  "int:25, str:'size': int:15}}})",
 'backend/rpc=3': "Array(dict{str:'fs': list[str:'DirFileSystem', str:'/path/to', "
                  "str:'MemoryFileSystem', str:'memory'], str:'url': str:'file', "
                  "str:'byte_ranges': list[tuple[int:5, int:10], tuple[int:15, int:20], "
                  "tuple[int:25, int:30], tuple[int:35, int:40]], str:'shape': tuple[int:4, "
                  "int:3], str:'dtype': str:'int16', str:'type_code': str:'IU2', "
                  "str:'records_per_chunk': int:3, str:'chunk_offsets': dict{int:0: "
                  "dict{str:'offset': int:5, str:'size': int:25}, int:1: dict{str:'offset': "
                  "int:35, str:'size': int:5}}})",
 'backend/rpc=4': "Array(dict{str:'fs': list[str:'DirFileSystem', str:'/path/to', "
                  "str:'MemoryFileSystem', str:'memory'], str:'url': str:'file', "
                  "str:'byte_ranges': list[tuple[int:5, int:10], tuple[int:15, int:20], "
                  "tuple[int:25, int:30], tuple[int:35, int:40]], str:'shape': tuple[int:4, "
                  "int:3], str:'dtype': str:'int16', str:'type_code': str:'IU2', "
                  "str:'records_per_chunk': int:4, str:'chunk_offsets': dict{int:0: "
                  "dict{str:'offset': int:5, str:'size': int:35}}})",
 'backend/rpc=100': "Array(dict{str:'fs': list[str:'DirFileSystem', str:'/path/to', "
                    "str:'MemoryFileSystem', str:'memory'], str:'url': str:'file', "
                    "str:'byte_ranges': list[tuple[int:5, int:10], tuple[int:15, int:20], "
                    "tuple[int:25, int:30], tuple[int:35, int:40]], str:'shape': tuple[int:4, "
                    "int:3], str:'dtype': str:'int16', str:'type_code': str:'IU2', "
                    "str:'records_per_chunk': int:4, str:'chunk_offsets': dict{int:0: "
                    "dict{str:'offset': int:5, str:'size': int:35}}})",
 'backend/rpc=None': "Array(dict{str:'fs': list[str:'DirFileSystem', str:'/path/to', "
                     "str:'MemoryFileSystem', str:'memory'], str:'url': str:'file', "
                     "str:'byte_ranges': list[tuple[int:5, int:10], tuple[int:15, int:20], "
                     "tuple[int:25, int:30], tuple[int:35, int:40]], str:'shape': tuple[int:4, "
                     "int:3], str:'dtype': str:'int16', str:'type_code': str:'IU2', "
                     "str:'records_per_chunk': int:1024, str:'chunk_offsets': dict{int:0: "
                     "dict{str:'offset': int:5, str:'size': int:35}}})",
 "backend/rpc='auto'": "Array(dict{str:'fs': list[str:'DirFileSystem', str:'/path/to', "
                       "str:'MemoryFileSystem', str:'memory'], str:'url': str:'file', "
                       "str:'byte_ranges': list[tuple[int:5, int:10], tuple[int:15, int:20], "
                       "tuple[int:25, int:30], tuple[int:35, int:40]], str:'shape': tuple[int:4, "
                       "int:3], str:'dtype': str:'int16', str:'type_code': str:'IU2', "
                       "str:'records_per_chunk': int64:np.int64(4), str:'chunk_offsets': "
                       "dict{int:0: dict{str:'offset': int:5, str:'size': int:35}}})",
 "backend/rpc='12B'": "Array(dict{str:'fs': list[str:'DirFileSystem', str:'/path/to', "
                      "str:'MemoryFileSystem', str:'memory'], str:'url': str:'file', "
                      "str:'byte_ranges': list[tuple[int:5, int:10], tuple[int:15, int:20], "
                      "tuple[int:25, int:30], tuple[int:35, int:40]], str:'shape': tuple[int:4, "
                      "int:3], str:'dtype': str:'int16', str:'type_code': str:'IU2', "
                      "str:'records_per_chunk': int64:np.int64(2), str:'chunk_offsets': "
                      "dict{int:0: dict{str:'offset': int:5, str:'size': int:15}, int:1: "
                      "dict{str:'offset': int:25, str:'size': int:15}}})",
 'backend/rpc=-1': "Array(dict{str:'fs': list[str:'DirFileSystem', str:'/path/to', "
                   "str:'MemoryFileSystem', str:'memory'], str:'url': str:'file', "
                   "str:'byte_ranges': list[tuple[int:5, int:10], tuple[int:15, int:20], "
                   "tuple[int:25, int:30], tuple[int:35, int:40]], str:'shape': tuple[int:4, "
                   "int:3], str:'dtype': str:'int16', str:'type_code': str:'IU2', "
                   "str:'records_per_chunk': int:4, str:'chunk_offsets': dict{int:0: "
                   "dict{str:'offset': int:5, str:'size': int:35}}})",
 'backend/rpc=0': "Array(dict{str:'fs': list[str:'DirFileSystem', str:'/path/to', "
                  "str:'MemoryFileSystem', str:'memory'], str:'url': str:'file', "
                  "str:'byte_ranges': list[tuple[int:5, int:10], tuple[int:15, int:20], "
                  "tuple[int:25, int:30], tuple[int:35, int:40]], str:'shape': tuple[int:4, "
                  "int:3], str:'dtype': str:'int16', str:'type_code': str:'IU2', "
                  "str:'records_per_chunk': int:0, str:'chunk_offsets': dict{}})",
 'backend/rpc=2.5': "raises TypeError: can't multiply sequence by non-int of type 'float'",
 "backend/rpc='nonsense'": "raises ValueError: Could not interpret 'nonsense' as a byte unit",
 'backend/keyword': "Array(dict{str:'fs': list[str:'DirFileSystem', str:'/path/to', "
                    "str:'MemoryFileSystem', str:'memory'], str:'url': str:'file', "
                    "str:'byte_ranges': list[tuple[int:5, int:10], tuple[int:15, int:20], "
                    "tuple[int:25, int:30], tuple[int:35, int:40]], str:'shape': tuple[int:4, "
                    "int:3], str:'dtype': str:'int16', str:'type_code': str:'IU2', "
                    "str:'records_per_chunk': int:3, str:'chunk_offsets': dict{int:0: "
                    "dict{str:'offset': int:5, str:'size': int:25}, int:1: dict{str:'offset': "
                    "int:35, str:'size': int:5}}})",
 'backend/keywords': "Array(dict{str:'fs': list[str:'DirFileSystem', str:'/path/to', "
                     "str:'MemoryFileSystem', str:'memory'], str:'url': str:'file', "
                     "str:'byte_ranges': list[tuple[int:5, int:10], tuple[int:15, int:20], "
                     "tuple[int:25, int:30], tuple[int:35, int:40]], str:'shape': tuple[int:4, "
                     "int:3], str:'dtype': str:'int16', str:'type_code': str:'IU2', "
                     "str:'records_per_chunk': int:3, str:'chunk_offsets': dict{int:0: "
                     "dict{str:'offset': int:5, str:'size': int:25}, int:1: dict{str:'offset': "
                     "int:35, str:'size': int:5}}})",
 'backend/no-rpc': 'raises TypeError: decode_array() missing 1 required positional argument: '
                   "'records_per_chunk'",
 'backend/complex': "Array(dict{str:'fs': list[str:'DirFileSystem', str:'/path/to', "
                    "str:'MemoryFileSystem', str:'memory'], str:'url': str:'file', "
                    "str:'byte_ranges': list[tuple[int:5, int:10], tuple[int:15, int:20], "
                    "tuple[int:25, int:30], tuple[int:35, int:40]], str:'shape': tuple[int:4, "
                    "int:3], str:'dtype': str:'complex64', str:'type_code': str:'C*8', "
                    "str:'records_per_chunk': int:4, str:'chunk_offsets': dict{int:0: "
                    "dict{str:'offset': int:5, str:'size': int:35}}})",
 'backend/lists': "Array(dict{str:'fs': list[str:'DirFileSystem', str:'/path/to', "
                  "str:'MemoryFileSystem', str:'memory'], str:'url': str:'file', "
                  "str:'byte_ranges': list[list[int:5, int:10], list[int:15, int:20], list[int:25, "
                  "int:30], list[int:35, int:40]], str:'shape': list[int:4, int:3], str:'dtype': "
                  "str:'int16', str:'type_code': str:'IU2', str:'records_per_chunk': int:2, "
                  "str:'chunk_offsets': dict{int:0: dict{str:'offset': int:5, str:'size': int:15}, "
                  "int:1: dict{str:'offset': int:25, str:'size': int:15}}})",
 'backend/no-type': "Array(dict{str:'fs': list[str:'DirFileSystem', str:'/path/to', "
                    "str:'MemoryFileSystem', str:'memory'], str:'url': str:'file', "
                    "str:'byte_ranges': list[tuple[int:5, int:10], tuple[int:15, int:20], "
                    "tuple[int:25, int:30], tuple[int:35, int:40]], str:'shape': tuple[int:4, "
                    "int:3], str:'dtype': str:'int16', str:'type_code': str:'IU2', "
                    "str:'records_per_chunk': int:2, str:'chunk_offsets': dict{int:0: "
                    "dict{str:'offset': int:5, str:'size': int:15}, int:1: dict{str:'offset': "
                    "int:25, str:'size': int:15}}})",
 'backend/other-type': "Array(dict{str:'fs': list[str:'DirFileSystem', str:'/path/to', "
                       "str:'MemoryFileSystem', str:'memory'], str:'url': str:'file', "
                       "str:'byte_ranges': list[tuple[int:5, int:10], tuple[int:15, int:20], "
                       "tuple[int:25, int:30], tuple[int:35, int:40]], str:'shape': tuple[int:4, "
                       "int:3], str:'dtype': str:'int16', str:'type_code': str:'IU2', "
                       "str:'records_per_chunk': int:2, str:'chunk_offsets': dict{int:0: "
                       "dict{str:'offset': int:5, str:'size': int:15}, int:1: dict{str:'offset': "
                       "int:25, str:'size': int:15}}})",
 'backend/list-type': "Array(dict{str:'fs': list[str:'DirFileSystem', str:'/path/to', "
                      "str:'MemoryFileSystem', str:'memory'], str:'url': str:'file', "
                      "str:'byte_ranges': list[tuple[int:5, int:10], tuple[int:15, int:20], "
                      "tuple[int:25, int:30], tuple[int:35, int:40]], str:'shape': tuple[int:4, "
                      "int:3], str:'dtype': str:'int16', str:'type_code': str:'IU2', "
                      "str:'records_per_chunk': int:2, str:'chunk_offsets': dict{int:0: "
                      "dict{str:'offset': int:5, str:'size': int:15}, int:1: dict{str:'offset': "
                      "int:25, str:'size': int:15}}})",
 'backend/file-root': "Array(dict{str:'fs': list[str:'DirFileSystem', str:'/a/b', "
                      "str:'LocalFileSystem', tuple[str:'file', str:'local']], str:'url': "
                      "str:'file', str:'byte_ranges': list[tuple[int:5, int:10], tuple[int:15, "
                      "int:20], tuple[int:25, int:30], tuple[int:35, int:40]], str:'shape': "
                      "tuple[int:4, int:3], str:'dtype': str:'int16', str:'type_code': str:'IU2', "
                      "str:'records_per_chunk': int:2, str:'chunk_offsets': dict{int:0: "
                      "dict{str:'offset': int:5, str:'size': int:15}, int:1: dict{str:'offset': "
                      "int:25, str:'size': int:15}}})",
 'backend/file-url-root': "Array(dict{str:'fs': list[str:'DirFileSystem', str:'/a/b', "
                          "str:'LocalFileSystem', tuple[str:'file', str:'local']], str:'url': "
                          "str:'file', str:'byte_ranges': list[tuple[int:5, int:10], tuple[int:15, "
                          "int:20], tuple[int:25, int:30], tuple[int:35, int:40]], str:'shape': "
                          "tuple[int:4, int:3], str:'dtype': str:'int16', str:'type_code': "
                          "str:'IU2', str:'records_per_chunk': int:2, str:'chunk_offsets': "
                          "dict{int:0: dict{str:'offset': int:5, str:'size': int:15}, int:1: "
                          "dict{str:'offset': int:25, str:'size': int:15}}})",
 'backend/bad-protocol': 'raises ValueError: Protocol not known: nosuchproto',
 'backend/numeric-root': "raises TypeError: argument of type 'int' is not iterable",
 'backend/empty-dict': "raises KeyError: 'root'",
 'backend/not-a-dict': "raises AttributeError: 'list' object has no attribute 'get'",
 'backend/none': "raises AttributeError: 'NoneType' object has no attribute 'get'",
 'backend/first-0-fields': "raises KeyError: 'root'",
 'backend/first-1-fields': "raises KeyError: 'type_code'",
 'backend/first-2-fields': "raises KeyError: 'url'",
 'backend/first-3-fields': "raises KeyError: 'shape'",
 'backend/first-4-fields': "raises KeyError: 'dtype'",
 'backend/first-5-fields': "raises KeyError: 'byte_ranges'",
 'backend/without-root': "raises KeyError: 'root'",
 'backend/without-type_code': "raises KeyError: 'type_code'",
 'backend/without-url': "raises KeyError: 'url'",
 'backend/without-shape': "raises KeyError: 'shape'",
 'backend/without-dtype': "raises KeyError: 'dtype'",
 'backend/without-byte_ranges': "raises KeyError: 'byte_ranges'",
 'backend/bad-shape': "raises TypeError: 'NoneType' object is not subscriptable",
 'backend/bad-ranges': "raises TypeError: 'int' object is not iterable",
 'access-order/array-backend': "list[tuple[str:'get', str:'__type__'], str:'root', "
                               "str:'type_code', str:'url', str:'shape', str:'dtype', "
                               "str:'byte_ranges']",
 'access-order/array-backend-incomplete': "list[tuple[str:'get', str:'__type__'], str:'root', "
                                          "str:'type_code', str:'url', str:'shape']",
 'access-order/array-int8': "list[tuple[str:'get', str:'__type__'], str:'dtype', str:'data', "
                            "str:'dtype']",
 'access-order/array-datetime': "list[tuple[str:'get', str:'__type__'], str:'dtype', "
                                "str:'encoding', str:'dtype', str:'data']",
 'access-order/array-timedelta': "list[tuple[str:'get', str:'__type__'], str:'dtype', str:'data', "
                                 "str:'dtype']",
 'variable/int8/rpc=1': "Variable(dict{str:'dims': list[str:'x'], str:'data': "
                        "ndarray<int8,(2,)>:[1, 2]:['1', '2'], str:'attrs': dict{}})",
 'hierarchy/variable-int8/rpc=1': "Variable(dict{str:'dims': list[str:'x'], str:'data': "
                                  "ndarray<int8,(2,)>:[1, 2]:['1', '2'], str:'attrs': dict{}})",
 'variable/int8/rpc=3': "Variable(dict{str:'dims': list[str:'x'], str:'data': "
                        "ndarray<int8,(2,)>:[1, 2]:['1', '2'], str:'attrs': dict{}})",
 'hierarchy/variable-int8/rpc=3': "Variable(dict{str:'dims': list[str:'x'], str:'data': "
                                  "ndarray<int8,(2,)>:[1, 2]:['1', '2'], str:'attrs': dict{}})",
 'variable/attrs/rpc=1': "Variable(dict{str:'dims': list[str:'x', str:'y'], str:'data': "
                         "ndarray<uint16,(2, 2)>:[[1, 2], [3, 4]]:[['1', '2'], ['3', '4']], "
                         "str:'attrs': dict{str:'a': int:1, str:'b': tuple[int:1, int:2]}})",
 'hierarchy/variable-attrs/rpc=1': "Variable(dict{str:'dims': list[str:'x', str:'y'], str:'data': "
                                   "ndarray<uint16,(2, 2)>:[[1, 2], [3, 4]]:[['1', '2'], ['3', "
                                   "'4']], str:'attrs': dict{str:'a': int:1, str:'b': tuple[int:1, "
                                   'int:2]}})',
 'variable/attrs/rpc=3': "Variable(dict{str:'dims': list[str:'x', str:'y'], str:'data': "
                         "ndarray<uint16,(2, 2)>:[[1, 2], [3, 4]]:[['1', '2'], ['3', '4']], "
                         "str:'attrs': dict{str:'a': int:1, str:'b': tuple[int:1, int:2]}})",
 'hierarchy/variable-attrs/rpc=3': "Variable(dict{str:'dims': list[str:'x', str:'y'], str:'data': "
                                   "ndarray<uint16,(2, 2)>:[[1, 2], [3, 4]]:[['1', '2'], ['3', "
                                   "'4']], str:'attrs': dict{str:'a': int:1, str:'b': tuple[int:1, "
                                   'int:2]}})',
 'variable/str-dims/rpc=1': "Variable(dict{str:'dims': list[str:'x'], str:'data': "
                            "ndarray<int8,(2,)>:[1, 2]:['1', '2'], str:'attrs': dict{}})",
 'hierarchy/variable-str-dims/rpc=1': "Variable(dict{str:'dims': list[str:'x'], str:'data': "
                                      "ndarray<int8,(2,)>:[1, 2]:['1', '2'], str:'attrs': dict{}})",
 'variable/str-dims/rpc=3': "Variable(dict{str:'dims': list[str:'x'], str:'data': "
                            "ndarray<int8,(2,)>:[1, 2]:['1', '2'], str:'attrs': dict{}})",
 'hierarchy/variable-str-dims/rpc=3': "Variable(dict{str:'dims': list[str:'x'], str:'data': "
                                      "ndarray<int8,(2,)>:[1, 2]:['1', '2'], str:'attrs': dict{}})",
 'variable/time/rpc=1': "Variable(dict{str:'dims': list[str:'t'], str:'data': "
                        'ndarray<datetime64[ms],(2,)>:[datetime.datetime(1997, 5, 27, 0, 0), '
                        "datetime.datetime(1997, 5, 27, 0, 2)]:['1997-05-27T00:00:00.000', "
                        "'1997-05-27T00:02:00.000'], str:'attrs': dict{str:'u': str:'v'}})",
 'hierarchy/variable-time/rpc=1': "Variable(dict{str:'dims': list[str:'t'], str:'data': "
                                  'ndarray<datetime64[ms],(2,)>:[datetime.datetime(1997, 5, 27, 0, '
                                  '0), datetime.datetime(1997, 5, 27, 0, '
                                  "2)]:['1997-05-27T00:00:00.000', '1997-05-27T00:02:00.000'], "
                                  "str:'attrs': dict{str:'u': str:'v'}})",
 'variable/time/rpc=3': "Variable(dict{str:'dims': list[str:'t'], str:'data': "
                        'ndarray<datetime64[ms],(2,)>:[datetime.datetime(1997, 5, 27, 0, 0), '
                        "datetime.datetime(1997, 5, 27, 0, 2)]:['1997-05-27T00:00:00.000', "
                        "'1997-05-27T00:02:00.000'], str:'attrs': dict{str:'u': str:'v'}})",
 'hierarchy/variable-time/rpc=3': "Variable(dict{str:'dims': list[str:'t'], str:'data': "
                                  'ndarray<datetime64[ms],(2,)>:[datetime.datetime(1997, 5, 27, 0, '
                                  '0), datetime.datetime(1997, 5, 27, 0, '
                                  "2)]:['1997-05-27T00:00:00.000', '1997-05-27T00:02:00.000'], "
                                  "str:'attrs': dict{str:'u': str:'v'}})",
 'variable/backend/rpc=1': "Variable(dict{str:'dims': list[str:'rows', str:'cols'], str:'data': "
                           "Array(dict{str:'fs': list[str:'DirFileSystem', str:'/path/to', "
                           "str:'MemoryFileSystem', str:'memory'], str:'url': str:'file', "
                           "str:'byte_ranges': list[tuple[int:5, int:10], tuple[int:15, int:20], "
                           "tuple[int:25, int:30], tuple[int:35, int:40]], str:'shape': "
                           "tuple[int:4, int:3], str:'dtype': str:'int16', str:'type_code': "
                           "str:'IU2', str:'records_per_chunk': int:1, str:'chunk_offsets': "
                           "dict{int:0: dict{str:'offset': int:5, str:'size': int:5}, int:1: "
                           "dict{str:'offset': int:15, str:'size': int:5}, int:2: "
                           "dict{str:'offset': int:25, str:'size': int:5}, int:3: "
                           "dict{str:'offset': int:35, str:'size': int:5}}}), str:'attrs': "
                           "dict{str:'k': list[int:1]}})",
 'hierarchy/variable-backend/rpc=1': "Variable(dict{str:'dims': list[str:'rows', str:'cols'], "
                                     "str:'data': Array(dict{str:'fs': list[str:'DirFileSystem', "
                                     "str:'/path/to', str:'MemoryFileSystem', str:'memory'], "
                                     "str:'url': str:'file', str:'byte_ranges': list[tuple[int:5, "
                                     'int:10], tuple[int:15, int:20], tuple[int:25, int:30], '
                                     "tuple[int:35, int:40]], str:'shape': tuple[int:4, int:3], "
                                     "str:'dtype': str:'int16', str:'type_code': str:'IU2', "
                                     "str:'records_per_chunk': int:1, str:'chunk_offsets': "
                                     "dict{int:0: dict{str:'offset': int:5, str:'size': int:5}, "
                                     "int:1: dict{str:'offset': int:15, str:'size': int:5}, int:2: "
                                     "dict{str:'offset': int:25, str:'size': int:5}, int:3: "
                                     "dict{str:'offset': int:35, str:'size': int:5}}}), "
                                     "str:'attrs': dict{str:'k': list[int:1]}})",
 'variable/backend/rpc=3': "Variable(dict{str:'dims': list[str:'rows', str:'cols'], str:'data': "
                           "Array(dict{str:'fs': list[str:'DirFileSystem', str:'/path/to', "
                           "str:'MemoryFileSystem', str:'memory'], str:'url': str:'file', "
                           "str:'byte_ranges': list[tuple[int:5, int:10], tuple[int:15, int:20], "
                           "tuple[int:25, int:30], tuple[int:35, int:40]], str:'shape': "
                           "tuple[int:4, int:3], str:'dtype': str:'int16', str:'type_code': "
                           "str:'IU2', str:'records_per_chunk': int:3, str:'chunk_offsets': "
                           "dict{int:0: dict{str:'offset': int:5, str:'size': int:25}, int:1: "
                           "dict{str:'offset': int:35, str:'size': int:5}}}), str:'attrs': "
                           "dict{str:'k': list[int:1]}})",
 'hierarchy/variable-backend/rpc=3': "Variable(dict{str:'dims': list[str:'rows', str:'cols'], "
                                     "str:'data': Array(dict{str:'fs': list[str:'DirFileSystem', "
                                     "str:'/path/to', str:'MemoryFileSystem', str:'memory'], "
                                     "str:'url': str:'file', str:'byte_ranges': list[tuple[int:5, "
                                     'int:10], tuple[int:15, int:20], tuple[int:25, int:30], '
                                     "tuple[int:35, int:40]], str:'shape': tuple[int:4, int:3], "
                                     "str:'dtype': str:'int16', str:'type_code': str:'IU2', "
                                     "str:'records_per_chunk': int:3, str:'chunk_offsets': "
                                     "dict{int:0: dict{str:'offset': int:5, str:'size': int:25}, "
                                     "int:1: dict{str:'offset': int:35, str:'size': int:5}}}), "
                                     "str:'attrs': dict{str:'k': list[int:1]}})",
 'variable/no-dims/rpc=1': "raises KeyError: 'dims'",
 'hierarchy/variable-no-dims/rpc=1': "raises KeyError: 'dims'",
 'variable/no-dims/rpc=3': "raises KeyError: 'dims'",
 'hierarchy/variable-no-dims/rpc=3': "raises KeyError: 'dims'",
 'variable/no-attrs/rpc=1': "raises KeyError: 'attrs'",
 'hierarchy/variable-no-attrs/rpc=1': "raises KeyError: 'attrs'",
 'variable/no-attrs/rpc=3': "raises KeyError: 'attrs'",
 'hierarchy/variable-no-attrs/rpc=3': "raises KeyError: 'attrs'",
 'variable/no-data/rpc=1': "raises KeyError: 'data'",
 'hierarchy/variable-no-data/rpc=1': "raises KeyError: 'data'",
 'variable/no-data/rpc=3': "raises KeyError: 'data'",
 'hierarchy/variable-no-data/rpc=3': "raises KeyError: 'data'",
 'variable/bad-data/rpc=1': "raises AttributeError: 'list' object has no attribute 'get'",
 'hierarchy/variable-bad-data/rpc=1': "raises AttributeError: 'list' object has no attribute 'get'",
 'variable/bad-data/rpc=3': "raises AttributeError: 'list' object has no attribute 'get'",
 'hierarchy/variable-bad-data/rpc=3': "raises AttributeError: 'list' object has no attribute 'get'",
 'variable/type-error/rpc=1': "raises TypeError: Cannot interpret '5' as a data type",
 'hierarchy/variable-type-error/rpc=1': "raises TypeError: Cannot interpret '5' as a data type",
 'variable/type-error/rpc=3': "raises TypeError: Cannot interpret '5' as a data type",
 'hierarchy/variable-type-error/rpc=3': "raises TypeError: Cannot interpret '5' as a data type",
 'group/empty/rpc=2': "Group(dict{str:'path': str:'path', str:'url': str:'abc', str:'data': "
                      "dict{}, str:'attrs': dict{str:'abc': str:'def'}})",
 'hierarchy/group-empty/rpc=2': "Group(dict{str:'path': str:'path', str:'url': str:'abc', "
                                "str:'data': dict{}, str:'attrs': dict{str:'abc': str:'def'}})",
 'group/empty/rpc=4': "Group(dict{str:'path': str:'path', str:'url': str:'abc', str:'data': "
                      "dict{}, str:'attrs': dict{str:'abc': str:'def'}})",
 'hierarchy/group-empty/rpc=4': "Group(dict{str:'path': str:'path', str:'url': str:'abc', "
                                "str:'data': dict{}, str:'attrs': dict{str:'abc': str:'def'}})",
 'group/variable/rpc=2': "Group(dict{str:'path': str:'/', str:'url': NoneType:None, str:'data': "
                         "dict{str:'v': Variable(dict{str:'dims': list[str:'x'], str:'data': "
                         "ndarray<int8,(2,)>:[1, 2]:['1', '2'], str:'attrs': dict{}})}, "
                         "str:'attrs': dict{}})",
 'hierarchy/group-variable/rpc=2': "Group(dict{str:'path': str:'/', str:'url': NoneType:None, "
                                   "str:'data': dict{str:'v': Variable(dict{str:'dims': "
                                   "list[str:'x'], str:'data': ndarray<int8,(2,)>:[1, 2]:['1', "
                                   "'2'], str:'attrs': dict{}})}, str:'attrs': dict{}})",
 'group/variable/rpc=4': "Group(dict{str:'path': str:'/', str:'url': NoneType:None, str:'data': "
                         "dict{str:'v': Variable(dict{str:'dims': list[str:'x'], str:'data': "
                         "ndarray<int8,(2,)>:[1, 2]:['1', '2'], str:'attrs': dict{}})}, "
                         "str:'attrs': dict{}})",
 'hierarchy/group-variable/rpc=4': "Group(dict{str:'path': str:'/', str:'url': NoneType:None, "
                                   "str:'data': dict{str:'v': Variable(dict{str:'dims': "
                                   "list[str:'x'], str:'data': ndarray<int8,(2,)>:[1, 2]:['1', "
                                   "'2'], str:'attrs': dict{}})}, str:'attrs': dict{}})",
 'group/backend/rpc=2': "Group(dict{str:'path': str:'/', str:'url': str:'memory:///path/to', "
                        "str:'data': dict{str:'v': Variable(dict{str:'dims': list[str:'rows', "
                        "str:'cols'], str:'data': Array(dict{str:'fs': list[str:'DirFileSystem', "
                        "str:'/path/to', str:'MemoryFileSystem', str:'memory'], str:'url': "
                        "str:'file', str:'byte_ranges': list[tuple[int:5, int:10], tuple[int:15, "
                        "int:20], tuple[int:25, int:30], tuple[int:35, int:40]], str:'shape': "
                        "tuple[int:4, int:3], str:'dtype': str:'int16', str:'type_code': "
                        "str:'IU2', str:'records_per_chunk': int:2, str:'chunk_offsets': "
                        "dict{int:0: dict{str:'offset': int:5, str:'size': int:15}, int:1: "
                        "dict{str:'offset': int:25, str:'size': int:15}}}), str:'attrs': "
                        "dict{str:'k': list[int:1]}})}, str:'attrs': dict{}})",
 'hierarchy/group-backend/rpc=2': "Group(dict{str:'path': str:'/', str:'url': "
                                  "str:'memory:///path/to', str:'data': dict{str:'v': "
                                  "Variable(dict{str:'dims': list[str:'rows', str:'cols'], "
                                  "str:'data': Array(dict{str:'fs': list[str:'DirFileSystem', "
                                  "str:'/path/to', str:'MemoryFileSystem', str:'memory'], "
                                  "str:'url': str:'file', str:'byte_ranges': list[tuple[int:5, "
                                  'int:10], tuple[int:15, int:20], tuple[int:25, int:30], '
                                  "tuple[int:35, int:40]], str:'shape': tuple[int:4, int:3], "
                                  "str:'dtype': str:'int16', str:'type_code': str:'IU2', "
                                  "str:'records_per_chunk': int:2, str:'chunk_offsets': "
                                  "dict{int:0: dict{str:'offset': int:5, str:'size': int:15}, "
                                  "int:1: dict{str:'offset': int:25, str:'size': int:15}}}), "
                                  "str:'attrs': dict{str:'k': list[int:1]}})}, str:'attrs': "
                                  'dict{}})',
 'group/backend/rpc=4': "Group(dict{str:'path': str:'/', str:'url': str:'memory:///path/to', "
                        "str:'data': dict{str:'v': Variable(dict{str:'dims': list[str:'rows', "
                        "str:'cols'], str:'data': Array(dict{str:'fs': list[str:'DirFileSystem', "
                        "str:'/path/to', str:'MemoryFileSystem', str:'memory'], str:'url': "
                        "str:'file', str:'byte_ranges': list[tuple[int:5, int:10], tuple[int:15, "
                        "int:20], tuple[int:25, int:30], tuple[int:35, int:40]], str:'shape': "
                        "tuple[int:4, int:3], str:'dtype': str:'int16', str:'type_code': "
                        "str:'IU2', str:'records_per_chunk': int:4, str:'chunk_offsets': "
                        "dict{int:0: dict{str:'offset': int:5, str:'size': int:35}}}), "
                        "str:'attrs': dict{str:'k': list[int:1]}})}, str:'attrs': dict{}})",
 'hierarchy/group-backend/rpc=4': "Group(dict{str:'path': str:'/', str:'url': "
                                  "str:'memory:///path/to', str:'data': dict{str:'v': "
                                  "Variable(dict{str:'dims': list[str:'rows', str:'cols'], "
                                  "str:'data': Array(dict{str:'fs': list[str:'DirFileSystem', "
                                  "str:'/path/to', str:'MemoryFileSystem', str:'memory'], "
                                  "str:'url': str:'file', str:'byte_ranges': list[tuple[int:5, "
                                  'int:10], tuple[int:15, int:20], tuple[int:25, int:30], '
                                  "tuple[int:35, int:40]], str:'shape': tuple[int:4, int:3], "
                                  "str:'dtype': str:'int16', str:'type_code': str:'IU2', "
                                  "str:'records_per_chunk': int:4, str:'chunk_offsets': "
                                  "dict{int:0: dict{str:'offset': int:5, str:'size': int:35}}}), "
                                  "str:'attrs': dict{str:'k': list[int:1]}})}, str:'attrs': "
                                  'dict{}})',
 'group/subgroup/rpc=2': "Group(dict{str:'path': str:'/', str:'url': NoneType:None, str:'data': "
                         "dict{str:'g': Group(dict{str:'path': str:'/g', str:'url': NoneType:None, "
                         "str:'data': dict{}, str:'attrs': dict{str:'n': str:'g'}})}, str:'attrs': "
                         'dict{}})',
 'hierarchy/group-subgroup/rpc=2': "Group(dict{str:'path': str:'/', str:'url': NoneType:None, "
                                   "str:'data': dict{str:'g': Group(dict{str:'path': str:'/g', "
                                   "str:'url': NoneType:None, str:'data': dict{}, str:'attrs': "
                                   "dict{str:'n': str:'g'}})}, str:'attrs': dict{}})",
 'group/subgroup/rpc=4': "Group(dict{str:'path': str:'/', str:'url': NoneType:None, str:'data': "
                         "dict{str:'g': Group(dict{str:'path': str:'/g', str:'url': NoneType:None, "
                         "str:'data': dict{}, str:'attrs': dict{str:'n': str:'g'}})}, str:'attrs': "
                         'dict{}})',
 'hierarchy/group-subgroup/rpc=4': "Group(dict{str:'path': str:'/', str:'url': NoneType:None, "
                                   "str:'data': dict{str:'g': Group(dict{str:'path': str:'/g', "
                                   "str:'url': NoneType:None, str:'data': dict{}, str:'attrs': "
                                   "dict{str:'n': str:'g'}})}, str:'attrs': dict{}})",
 'group/nested-order/rpc=2': "Group(dict{str:'path': str:'/', str:'url': str:'s3://bucket/scene', "
                             "str:'data': dict{str:'z': Variable(dict{str:'dims': list[str:'x', "
                             "str:'y'], str:'data': ndarray<uint16,(2, 2)>:[[1, 2], [3, 4]]:[['1', "
                             "'2'], ['3', '4']], str:'attrs': dict{str:'a': int:1, str:'b': "
                             "tuple[int:1, int:2]}}), str:'sub': Group(dict{str:'path': "
                             "str:'/sub', str:'url': str:'s3://bucket/scene', str:'data': "
                             "dict{str:'inner': Group(dict{str:'path': str:'/sub/inner', "
                             "str:'url': str:'other', str:'data': dict{str:'t': "
                             "Variable(dict{str:'dims': list[str:'t'], str:'data': "
                             'ndarray<datetime64[ms],(2,)>:[datetime.datetime(1997, 5, 27, 0, 0), '
                             "datetime.datetime(1997, 5, 27, 0, 2)]:['1997-05-27T00:00:00.000', "
                             "'1997-05-27T00:02:00.000'], str:'attrs': dict{str:'u': str:'v'}})}, "
                             "str:'attrs': dict{}}), str:'img': Variable(dict{str:'dims': "
                             "list[str:'rows', str:'cols'], str:'data': Array(dict{str:'fs': "
                             "list[str:'DirFileSystem', str:'/path/to', str:'MemoryFileSystem', "
                             "str:'memory'], str:'url': str:'file', str:'byte_ranges': "
                             'list[tuple[int:5, int:10], tuple[int:15, int:20], tuple[int:25, '
                             "int:30], tuple[int:35, int:40]], str:'shape': tuple[int:4, int:3], "
                             "str:'dtype': str:'int16', str:'type_code': str:'IU2', "
                             "str:'records_per_chunk': int:2, str:'chunk_offsets': dict{int:0: "
                             "dict{str:'offset': int:5, str:'size': int:15}, int:1: "
                             "dict{str:'offset': int:25, str:'size': int:15}}}), str:'attrs': "
                             "dict{str:'k': list[int:1]}})}, str:'attrs': dict{str:'d': int:1}}), "
                             "str:'a': Variable(dict{str:'dims': list[str:'x'], str:'data': "
                             "ndarray<int8,(2,)>:[1, 2]:['1', '2'], str:'attrs': dict{}}), "
                             "str:'sub2': Group(dict{str:'path': str:'/sub2', str:'url': "
                             "str:'s3://bucket/scene', str:'data': dict{}, str:'attrs': dict{}})}, "
                             "str:'attrs': dict{str:'k': tuple[int:1, int:2]}})",
 'hierarchy/group-nested-order/rpc=2': "Group(dict{str:'path': str:'/', str:'url': "
                                       "str:'s3://bucket/scene', str:'data': dict{str:'z': "
                                       "Variable(dict{str:'dims': list[str:'x', str:'y'], "
                                       "str:'data': ndarray<uint16,(2, 2)>:[[1, 2], [3, 4]]:[['1', "
                                       "'2'], ['3', '4']], str:'attrs': dict{str:'a': int:1, "
                                       "str:'b': tuple[int:1, int:2]}}), str:'sub': "
                                       "Group(dict{str:'path': str:'/sub', str:'url': "
                                       "str:'s3://bucket/scene', str:'data': dict{str:'inner': "
                                       "Group(dict{str:'path': str:'/sub/inner', str:'url': "
                                       "str:'other', str:'data': dict{str:'t': "
                                       "Variable(dict{str:'dims': list[str:'t'], str:'data': "
                                       'ndarray<datetime64[ms],(2,)>:[datetime.datetime(1997, 5, '
                                       '27, 0, 0), datetime.datetime(1997, 5, 27, 0, '
                                       "2)]:['1997-05-27T00:00:00.000', "
                                       "'1997-05-27T00:02:00.000'], str:'attrs': dict{str:'u': "
                                       "str:'v'}})}, str:'attrs': dict{}}), str:'img': "
                                       "Variable(dict{str:'dims': list[str:'rows', str:'cols'], "
                                       "str:'data': Array(dict{str:'fs': list[str:'DirFileSystem', "
                                       "str:'/path/to', str:'MemoryFileSystem', str:'memory'], "
                                       "str:'url': str:'file', str:'byte_ranges': "
                                       'list[tuple[int:5, int:10], tuple[int:15, int:20], '
                                       'tuple[int:25, int:30], tuple[int:35, int:40]], '
                                       "str:'shape': tuple[int:4, int:3], str:'dtype': "
                                       "str:'int16', str:'type_code': str:'IU2', "
                                       "str:'records_per_chunk': int:2, str:'chunk_offsets': "
                                       "dict{int:0: dict{str:'offset': int:5, str:'size': int:15}, "
                                       "int:1: dict{str:'offset': int:25, str:'size': int:15}}}), "
                                       "str:'attrs': dict{str:'k': list[int:1]}})}, str:'attrs': "
                                       "dict{str:'d': int:1}}), str:'a': Variable(dict{str:'dims': "
                                       "list[str:'x'], str:'data': ndarray<int8,(2,)>:[1, 2]:['1', "
                                       "'2'], str:'attrs': dict{}}), str:'sub2': "
                                       "Group(dict{str:'path': str:'/sub2', str:'url': "
                                       "str:'s3://bucket/scene', str:'data': dict{}, str:'attrs': "
                                       "dict{}})}, str:'attrs': dict{str:'k': tuple[int:1, "
                                       'int:2]}})',
 'group/nested-order/rpc=4': "Group(dict{str:'path': str:'/', str:'url': str:'s3://bucket/scene', "
                             "str:'data': dict{str:'z': Variable(dict{str:'dims': list[str:'x', "
                             "str:'y'], str:'data': ndarray<uint16,(2, 2)>:[[1, 2], [3, 4]]:[['1', "
                             "'2'], ['3', '4']], str:'attrs': dict{str:'a': int:1, str:'b': "
                             "tuple[int:1, int:2]}}), str:'sub': Group(dict{str:'path': "
                             "str:'/sub', str:'url': str:'s3://bucket/scene', str:'data': "
                             "dict{str:'inner': Group(dict{str:'path': str:'/sub/inner', "
                             "str:'url': str:'other', str:'data': dict{str:'t': "
                             "Variable(dict{str:'dims': list[str:'t'], str:'data': "
                             'ndarray<datetime64[ms],(2,)>:[datetime.datetime(1997, 5, 27, 0, 0), '
                             "datetime.datetime(1997, 5, 27, 0, 2)]:['1997-05-27T00:00:00.000', "
                             "'1997-05-27T00:02:00.000'], str:'attrs': dict{str:'u': str:'v'}})}, "
                             "str:'attrs': dict{}}), str:'img': Variable(dict{str:'dims': "
                             "list[str:'rows', str:'cols'], str:'data': Array(dict{str:'fs': "
                             "list[str:'DirFileSystem', str:'/path/to', str:'MemoryFileSystem', "
                             "str:'memory'], str:'url': str:'file', str:'byte_ranges': "
                             'list[tuple[int:5, int:10], tuple[int:15, int:20], tuple[int:25, '
                             "int:30], tuple[int:35, int:40]], str:'shape': tuple[int:4, int:3], "
                             "str:'dtype': str:'int16', str:'type_code': str:'IU2', "
                             "str:'records_per_chunk': int:4, str:'chunk_offsets': dict{int:0: "
                             "dict{str:'offset': int:5, str:'size': int:35}}}), str:'attrs': "
                             "dict{str:'k': list[int:1]}})}, str:'attrs': dict{str:'d': int:1}}), "
                             "str:'a': Variable(dict{str:'dims': list[str:'x'], str:'data': "
                             "ndarray<int8,(2,)>:[1, 2]:['1', '2'], str:'attrs': dict{}}), "
                             "str:'sub2': Group(dict{str:'path': str:'/sub2', str:'url': "
                             "str:'s3://bucket/scene', str:'data': dict{}, str:'attrs': dict{}})}, "
                             "str:'attrs': dict{str:'k': tuple[int:1, int:2]}})",
 'hierarchy/group-nested-order/rpc=4': "Group(dict{str:'path': str:'/', str:'url': "
                                       "str:'s3://bucket/scene', str:'data': dict{str:'z': "
                                       "Variable(dict{str:'dims': list[str:'x', str:'y'], "
                                       "str:'data': ndarray<uint16,(2, 2)>:[[1, 2], [3, 4]]:[['1', "
                                       "'2'], ['3', '4']], str:'attrs': dict{str:'a': int:1, "
                                       "str:'b': tuple[int:1, int:2]}}), str:'sub': "
                                       "Group(dict{str:'path': str:'/sub', str:'url': "
                                       "str:'s3://bucket/scene', str:'data': dict{str:'inner': "
                                       "Group(dict{str:'path': str:'/sub/inner', str:'url': "
                                       "str:'other', str:'data': dict{str:'t': "
                                       "Variable(dict{str:'dims': list[str:'t'], str:'data': "
                                       'ndarray<datetime64[ms],(2,)>:[datetime.datetime(1997, 5, '
                                       '27, 0, 0), datetime.datetime(1997, 5, 27, 0, '
                                       "2)]:['1997-05-27T00:00:00.000', "
                                       "'1997-05-27T00:02:00.000'], str:'attrs': dict{str:'u': "
                                       "str:'v'}})}, str:'attrs': dict{}}), str:'img': "
                                       "Variable(dict{str:'dims': list[str:'rows', str:'cols'], "
                                       "str:'data': Array(dict{str:'fs': list[str:'DirFileSystem', "
                                       "str:'/path/to', str:'MemoryFileSystem', str:'memory'], "
                                       "str:'url': str:'file', str:'byte_ranges': "
                                       'list[tuple[int:5, int:10], tuple[int:15, int:20], '
                                       'tuple[int:25, int:30], tuple[int:35, int:40]], '
                                       "str:'shape': tuple[int:4, int:3], str:'dtype': "
                                       "str:'int16', str:'type_code': str:'IU2', "
                                       "str:'records_per_chunk': int:4, str:'chunk_offsets': "
                                       "dict{int:0: dict{str:'offset': int:5, str:'size': "
                                       "int:35}}}), str:'attrs': dict{str:'k': list[int:1]}})}, "
                                       "str:'attrs': dict{str:'d': int:1}}), str:'a': "
                                       "Variable(dict{str:'dims': list[str:'x'], str:'data': "
                                       "ndarray<int8,(2,)>:[1, 2]:['1', '2'], str:'attrs': "
                                       "dict{}}), str:'sub2': Group(dict{str:'path': str:'/sub2', "
                                       "str:'url': str:'s3://bucket/scene', str:'data': dict{}, "
                                       "str:'attrs': dict{}})}, str:'attrs': dict{str:'k': "
                                       'tuple[int:1, int:2]}})',
 'group/plain-entries/rpc=2': "Group(dict{str:'path': str:'/', str:'url': NoneType:None, "
                              "str:'data': dict{str:'a': dict{str:'x': int:1}, str:'b': "
                              "dict{str:'__type__': str:'array', str:'data': list[int:1]}, "
                              "str:'c': dict{}}, str:'attrs': dict{}})",
 'hierarchy/group-plain-entries/rpc=2': "Group(dict{str:'path': str:'/', str:'url': NoneType:None, "
                                        "str:'data': dict{str:'a': dict{str:'x': int:1}, str:'b': "
                                        "dict{str:'__type__': str:'array', str:'data': "
                                        "list[int:1]}, str:'c': dict{}}, str:'attrs': dict{}})",
 'group/plain-entries/rpc=4': "Group(dict{str:'path': str:'/', str:'url': NoneType:None, "
                              "str:'data': dict{str:'a': dict{str:'x': int:1}, str:'b': "
                              "dict{str:'__type__': str:'array', str:'data': list[int:1]}, "
                              "str:'c': dict{}}, str:'attrs': dict{}})",
 'hierarchy/group-plain-entries/rpc=4': "Group(dict{str:'path': str:'/', str:'url': NoneType:None, "
                                        "str:'data': dict{str:'a': dict{str:'x': int:1}, str:'b': "
                                        "dict{str:'__type__': str:'array', str:'data': "
                                        "list[int:1]}, str:'c': dict{}}, str:'attrs': dict{}})",
 'group/ordered-data/rpc=2': "Group(dict{str:'path': str:'/', str:'url': NoneType:None, "
                             "str:'data': dict{str:'b': Variable(dict{str:'dims': list[str:'x'], "
                             "str:'data': ndarray<int8,(2,)>:[1, 2]:['1', '2'], str:'attrs': "
                             "dict{}}), str:'a': dict{}}, str:'attrs': dict{}})",
 'hierarchy/group-ordered-data/rpc=2': "Group(dict{str:'path': str:'/', str:'url': NoneType:None, "
                                       "str:'data': dict{str:'b': Variable(dict{str:'dims': "
                                       "list[str:'x'], str:'data': ndarray<int8,(2,)>:[1, 2]:['1', "
                                       "'2'], str:'attrs': dict{}}), str:'a': dict{}}, "
                                       "str:'attrs': dict{}})",
 'group/ordered-data/rpc=4': "Group(dict{str:'path': str:'/', str:'url': NoneType:None, "
                             "str:'data': dict{str:'b': Variable(dict{str:'dims': list[str:'x'], "
                             "str:'data': ndarray<int8,(2,)>:[1, 2]:['1', '2'], str:'attrs': "
                             "dict{}}), str:'a': dict{}}, str:'attrs': dict{}})",
 'hierarchy/group-ordered-data/rpc=4': "Group(dict{str:'path': str:'/', str:'url': NoneType:None, "
                                       "str:'data': dict{str:'b': Variable(dict{str:'dims': "
                                       "list[str:'x'], str:'data': ndarray<int8,(2,)>:[1, 2]:['1', "
                                       "'2'], str:'attrs': dict{}}), str:'a': dict{}}, "
                                       "str:'attrs': dict{}})",
 'group/int-entry/rpc=2': "raises AttributeError: 'int' object has no attribute 'get'",
 'hierarchy/group-int-entry/rpc=2': "raises AttributeError: 'int' object has no attribute 'get'",
 'group/int-entry/rpc=4': "raises AttributeError: 'int' object has no attribute 'get'",
 'hierarchy/group-int-entry/rpc=4': "raises AttributeError: 'int' object has no attribute 'get'",
 'group/none-entry/rpc=2': "raises AttributeError: 'NoneType' object has no attribute 'get'",
 'hierarchy/group-none-entry/rpc=2': "raises AttributeError: 'NoneType' object has no attribute "
                                     "'get'",
 'group/none-entry/rpc=4': "raises AttributeError: 'NoneType' object has no attribute 'get'",
 'hierarchy/group-none-entry/rpc=4': "raises AttributeError: 'NoneType' object has no attribute "
                                     "'get'",
 'group/list-entry/rpc=2': "raises AttributeError: 'list' object has no attribute 'get'",
 'hierarchy/group-list-entry/rpc=2': "raises AttributeError: 'list' object has no attribute 'get'",
 'group/list-entry/rpc=4': "raises AttributeError: 'list' object has no attribute 'get'",
 'hierarchy/group-list-entry/rpc=4': "raises AttributeError: 'list' object has no attribute 'get'",
 'group/list-data/rpc=2': "raises AttributeError: 'list' object has no attribute 'keys'",
 'hierarchy/group-list-data/rpc=2': "raises AttributeError: 'list' object has no attribute 'keys'",
 'group/list-data/rpc=4': "raises AttributeError: 'list' object has no attribute 'keys'",
 'hierarchy/group-list-data/rpc=4': "raises AttributeError: 'list' object has no attribute 'keys'",
 'group/none-data/rpc=2': "raises AttributeError: 'NoneType' object has no attribute 'keys'",
 'hierarchy/group-none-data/rpc=2': "raises AttributeError: 'NoneType' object has no attribute "
                                    "'keys'",
 'group/none-data/rpc=4': "raises AttributeError: 'NoneType' object has no attribute 'keys'",
 'hierarchy/group-none-data/rpc=4': "raises AttributeError: 'NoneType' object has no attribute "
                                    "'keys'",
 'group/str-data/rpc=2': "raises AttributeError: 'str' object has no attribute 'keys'",
 'hierarchy/group-str-data/rpc=2': "raises AttributeError: 'str' object has no attribute 'keys'",
 'group/str-data/rpc=4': "raises AttributeError: 'str' object has no attribute 'keys'",
 'hierarchy/group-str-data/rpc=4': "raises AttributeError: 'str' object has no attribute 'keys'",
 'group/no-data/rpc=2': "raises KeyError: 'data'",
 'hierarchy/group-no-data/rpc=2': "raises KeyError: 'data'",
 'group/no-data/rpc=4': "raises KeyError: 'data'",
 'hierarchy/group-no-data/rpc=4': "raises KeyError: 'data'",
 'group/no-path/rpc=2': "raises KeyError: 'path'",
 'hierarchy/group-no-path/rpc=2': "raises KeyError: 'path'",
 'group/no-path/rpc=4': "raises KeyError: 'path'",
 'hierarchy/group-no-path/rpc=4': "raises KeyError: 'path'",
 'group/no-url/rpc=2': "raises KeyError: 'url'",
 'hierarchy/group-no-url/rpc=2': "raises KeyError: 'url'",
 'group/no-url/rpc=4': "raises KeyError: 'url'",
 'hierarchy/group-no-url/rpc=4': "raises KeyError: 'url'",
 'group/no-attrs/rpc=2': "raises KeyError: 'attrs'",
 'hierarchy/group-no-attrs/rpc=2': "raises KeyError: 'attrs'",
 'group/no-attrs/rpc=4': "raises KeyError: 'attrs'",
 'hierarchy/group-no-attrs/rpc=4': "raises KeyError: 'attrs'",
 'group/no-path-and-bad-entry/rpc=2': "raises AttributeError: 'int' object has no attribute 'get'",
 'hierarchy/group-no-path-and-bad-entry/rpc=2': "raises AttributeError: 'int' object has no "
                                                "attribute 'get'",
 'group/no-path-and-bad-entry/rpc=4': "raises AttributeError: 'int' object has no attribute 'get'",
 'hierarchy/group-no-path-and-bad-entry/rpc=4': "raises AttributeError: 'int' object has no "
                                                "attribute 'get'",
 'group/none-path/rpc=2': "Group(dict{str:'path': str:'/', str:'url': NoneType:None, str:'data': "
                          "dict{str:'g': Group(dict{str:'path': str:'/g', str:'url': "
                          "NoneType:None, str:'data': dict{}, str:'attrs': dict{}})}, str:'attrs': "
                          'dict{}})',
 'hierarchy/group-none-path/rpc=2': "Group(dict{str:'path': str:'/', str:'url': NoneType:None, "
                                    "str:'data': dict{str:'g': Group(dict{str:'path': str:'/g', "
                                    "str:'url': NoneType:None, str:'data': dict{}, str:'attrs': "
                                    "dict{}})}, str:'attrs': dict{}})",
 'group/none-path/rpc=4': "Group(dict{str:'path': str:'/', str:'url': NoneType:None, str:'data': "
                          "dict{str:'g': Group(dict{str:'path': str:'/g', str:'url': "
                          "NoneType:None, str:'data': dict{}, str:'attrs': dict{}})}, str:'attrs': "
                          'dict{}})',
 'hierarchy/group-none-path/rpc=4': "Group(dict{str:'path': str:'/', str:'url': NoneType:None, "
                                    "str:'data': dict{str:'g': Group(dict{str:'path': str:'/g', "
                                    "str:'url': NoneType:None, str:'data': dict{}, str:'attrs': "
                                    "dict{}})}, str:'attrs': dict{}})",
 'group/type-error-entry/rpc=2': "raises TypeError: Cannot interpret '5' as a data type",
 'hierarchy/group-type-error-entry/rpc=2': "raises TypeError: Cannot interpret '5' as a data type",
 'group/type-error-entry/rpc=4': "raises TypeError: Cannot interpret '5' as a data type",
 'hierarchy/group-type-error-entry/rpc=4': "raises TypeError: Cannot interpret '5' as a data type",
 'group/nested-type-error/rpc=2': "raises TypeError: Cannot interpret '5' as a data type",
 'hierarchy/group-nested-type-error/rpc=2': "raises TypeError: Cannot interpret '5' as a data type",
 'group/nested-type-error/rpc=4': "raises TypeError: Cannot interpret '5' as a data type",
 'hierarchy/group-nested-type-error/rpc=4': "raises TypeError: Cannot interpret '5' as a data type",
 'group/nested-key-error/rpc=2': "raises KeyError: 'data'",
 'hierarchy/group-nested-key-error/rpc=2': "raises KeyError: 'data'",
 'group/nested-key-error/rpc=4': "raises KeyError: 'data'",
 'hierarchy/group-nested-key-error/rpc=4': "raises KeyError: 'data'",
 'group/unhashable-entry-type/rpc=2': "raises TypeError: unhashable type: 'list'",
 'hierarchy/group-unhashable-entry-type/rpc=2': "raises TypeError: unhashable type: 'list'",
 'group/unhashable-entry-type/rpc=4': "raises TypeError: unhashable type: 'list'",
 'hierarchy/group-unhashable-entry-type/rpc=4': "raises TypeError: unhashable type: 'list'",
 'group/extra-keys/rpc=2': "Group(dict{str:'path': str:'/', str:'url': NoneType:None, str:'data': "
                           "dict{}, str:'attrs': dict{}})",
 'hierarchy/group-extra-keys/rpc=2': "Group(dict{str:'path': str:'/', str:'url': NoneType:None, "
                                     "str:'data': dict{}, str:'attrs': dict{}})",
 'group/extra-keys/rpc=4': "Group(dict{str:'path': str:'/', str:'url': NoneType:None, str:'data': "
                           "dict{}, str:'attrs': dict{}})",
 'hierarchy/group-extra-keys/rpc=4': "Group(dict{str:'path': str:'/', str:'url': NoneType:None, "
                                     "str:'data': dict{}, str:'attrs': dict{}})",
 'group/positional': "Group(dict{str:'path': str:'/', str:'url': str:'memory:///path/to', "
                     "str:'data': dict{str:'v': Variable(dict{str:'dims': list[str:'rows', "
                     "str:'cols'], str:'data': Array(dict{str:'fs': list[str:'DirFileSystem', "
                     "str:'/path/to', str:'MemoryFileSystem', str:'memory'], str:'url': "
                     "str:'file', str:'byte_ranges': list[tuple[int:5, int:10], tuple[int:15, "
                     "int:20], tuple[int:25, int:30], tuple[int:35, int:40]], str:'shape': "
                     "tuple[int:4, int:3], str:'dtype': str:'int16', str:'type_code': str:'IU2', "
                     "str:'records_per_chunk': int:3, str:'chunk_offsets': dict{int:0: "
                     "dict{str:'offset': int:5, str:'size': int:25}, int:1: dict{str:'offset': "
                     "int:35, str:'size': int:5}}}), str:'attrs': dict{str:'k': list[int:1]}})}, "
                     "str:'attrs': dict{}})",
 'group/no-rpc': 'raises TypeError: decode_group() missing 1 required positional argument: '
                 "'records_per_chunk'",
 'group/not-a-dict': 'raises TypeError: list indices must be integers or slices, not str',
 'group/result-types': "list[str:'dict', str:'dict', list[str:'z', str:'sub', str:'a', "
                       "str:'sub2']]",
 'group/ordered-result-types': "list[str:'dict', list[str:'b', str:'a']]",
 'access-order/group-nested-order': "list[str:'data', str:'path', str:'url', str:'attrs']",
 'access-order/hierarchy-nested-order': "list[tuple[str:'get', str:'__type__'], str:'data', "
                                        "str:'path', str:'url', str:'attrs']",
 'access-order/group-no-data': "list[str:'data']",
 'access-order/hierarchy-no-data': "list[tuple[str:'get', str:'__type__'], str:'data']",
 'access-order/group-no-path-and-bad-entry': "list[str:'data']",
 'access-order/hierarchy-no-path-and-bad-entry': "list[tuple[str:'get', str:'__type__'], "
                                                 "str:'data']",
 'access-order/group-int-entry': "list[str:'data']",
 'access-order/hierarchy-int-entry': "list[tuple[str:'get', str:'__type__'], str:'data']",
 'hierarchy/no-type': "dict{str:'a': int:1}",
 'hierarchy/no-type/keyword': "dict{str:'a': int:1}",
 'hierarchy/empty': 'dict{}',
 'hierarchy/empty/keyword': 'dict{}',
 'hierarchy/none-type': "dict{str:'__type__': NoneType:None, str:'a': int:1}",
 'hierarchy/none-type/keyword': "dict{str:'__type__': NoneType:None, str:'a': int:1}",
 'hierarchy/array-type': "dict{str:'__type__': str:'array', str:'dtype': str:'int8', str:'data': "
                         "list[int:1, int:2], str:'encoding': dict{}}",
 'hierarchy/array-type/keyword': "dict{str:'__type__': str:'array', str:'dtype': str:'int8', "
                                 "str:'data': list[int:1, int:2], str:'encoding': dict{}}",
 'hierarchy/backend-type': "dict{str:'__type__': str:'backend_array', str:'root': "
                           "str:'memory:///path/to', str:'url': str:'file', str:'shape': "
                           "tuple[int:4, int:3], str:'dtype': str:'int16', str:'byte_ranges': "
                           'list[tuple[int:5, int:10], tuple[int:15, int:20], tuple[int:25, '
                           "int:30], tuple[int:35, int:40]], str:'type_code': str:'IU2'}",
 'hierarchy/backend-type/keyword': "dict{str:'__type__': str:'backend_array', str:'root': "
                                   "str:'memory:///path/to', str:'url': str:'file', str:'shape': "
                                   "tuple[int:4, int:3], str:'dtype': str:'int16', "
                                   "str:'byte_ranges': list[tuple[int:5, int:10], tuple[int:15, "
                                   'int:20], tuple[int:25, int:30], tuple[int:35, int:40]], '
                                   "str:'type_code': str:'IU2'}",
 'hierarchy/tuple-type': "dict{str:'__type__': str:'tuple', str:'data': list[int:1]}",
 'hierarchy/tuple-type/keyword': "dict{str:'__type__': str:'tuple', str:'data': list[int:1]}",
 'hierarchy/unknown-type': "dict{str:'__type__': str:'Group', str:'data': dict{}}",
 'hierarchy/unknown-type/keyword': "dict{str:'__type__': str:'Group', str:'data': dict{}}",
 'hierarchy/int-type': "dict{str:'__type__': int:1}",
 'hierarchy/int-type/keyword': "dict{str:'__type__': int:1}",
 'hierarchy/bool-type': "dict{str:'__type__': bool:True}",
 'hierarchy/bool-type/keyword': "dict{str:'__type__': bool:True}",
 'hierarchy/float-type': "dict{str:'__type__': float:nan}",
 'hierarchy/float-type/keyword': "dict{str:'__type__': float:nan}",
 'hierarchy/tuple-valued-type': "dict{str:'__type__': tuple[str:'group']}",
 'hierarchy/tuple-valued-type/keyword': "dict{str:'__type__': tuple[str:'group']}",
 'hierarchy/list-type': "raises TypeError: unhashable type: 'list'",
 'hierarchy/list-type/keyword': "raises TypeError: unhashable type: 'list'",
 'hierarchy/dict-type': "raises TypeError: unhashable type: 'dict'",
 'hierarchy/dict-type/keyword': "raises TypeError: unhashable type: 'dict'",
 'hierarchy/nested-unhashable-type': "raises TypeError: unhashable type: 'list'",
 'hierarchy/nested-unhashable-type/keyword': "raises TypeError: unhashable type: 'list'",
 'hierarchy/identity': "dict{str:'no-type': bool:True, str:'empty': bool:True, str:'none-type': "
                       "bool:True, str:'array-type': bool:True, str:'unknown-type': bool:True, "
                       "str:'int-type': bool:True}",
 'hierarchy/non-dict-int': "raises AttributeError: 'int' object has no attribute 'get'",
 'hierarchy/non-dict-none': "raises AttributeError: 'NoneType' object has no attribute 'get'",
 'hierarchy/non-dict-list': "raises AttributeError: 'list' object has no attribute 'get'",
 'hierarchy/non-dict-str': "raises AttributeError: 'str' object has no attribute 'get'",
 'hierarchy/non-dict-group': "Group(dict{str:'path': str:'/', str:'url': str:'u', str:'data': "
                             "dict{}, str:'attrs': dict{}})",
 'hierarchy/no-rpc': 'raises TypeError: decode_hierarchy() missing 1 required positional argument: '
                     "'records_per_chunk'",
 'spied/group': "Group(dict{str:'path': str:'/', str:'url': str:'s3://bucket/scene', str:'data': "
                "dict{str:'z': Variable(dict{str:'dims': list[str:'x', str:'y'], str:'data': "
                "ndarray<uint16,(2, 2)>:[[1, 2], [3, 4]]:[['1', '2'], ['3', '4']], str:'attrs': "
                "dict{str:'a': int:1, str:'b': tuple[int:1, int:2]}}), str:'sub': "
                "Group(dict{str:'path': str:'/sub', str:'url': str:'s3://bucket/scene', "
                "str:'data': dict{str:'inner': Group(dict{str:'path': str:'/sub/inner', str:'url': "
                "str:'other', str:'data': dict{str:'t': Variable(dict{str:'dims': list[str:'t'], "
                "str:'data': ndarray<datetime64[ms],(2,)>:[datetime.datetime(1997, 5, 27, 0, 0), "
                "datetime.datetime(1997, 5, 27, 0, 2)]:['1997-05-27T00:00:00.000', "
                "'1997-05-27T00:02:00.000'], str:'attrs': dict{str:'u': str:'v'}})}, str:'attrs': "
                "dict{}}), str:'img': Variable(dict{str:'dims': list[str:'rows', str:'cols'], "
                "str:'data': Array(dict{str:'fs': list[str:'DirFileSystem', str:'/path/to', "
                "str:'MemoryFileSystem', str:'memory'], str:'url': str:'file', str:'byte_ranges': "
                'list[tuple[int:5, int:10], tuple[int:15, int:20], tuple[int:25, int:30], '
                "tuple[int:35, int:40]], str:'shape': tuple[int:4, int:3], str:'dtype': "
                "str:'int16', str:'type_code': str:'IU2', str:'records_per_chunk': int:2, "
                "str:'chunk_offsets': dict{int:0: dict{str:'offset': int:5, str:'size': int:15}, "
                "int:1: dict{str:'offset': int:25, str:'size': int:15}}}), str:'attrs': "
                "dict{str:'k': list[int:1]}})}, str:'attrs': dict{str:'d': int:1}}), str:'a': "
                "Variable(dict{str:'dims': list[str:'x'], str:'data': ndarray<int8,(2,)>:[1, "
                "2]:['1', '2'], str:'attrs': dict{}}), str:'sub2': Group(dict{str:'path': "
                "str:'/sub2', str:'url': str:'s3://bucket/scene', str:'data': dict{}, str:'attrs': "
                "dict{}})}, str:'attrs': dict{str:'k': tuple[int:1, int:2]}})",
 'spied/hierarchy': "Group(dict{str:'path': str:'/', str:'url': str:'s3://bucket/scene', "
                    "str:'data': dict{str:'z': Variable(dict{str:'dims': list[str:'x', str:'y'], "
                    "str:'data': ndarray<uint16,(2, 2)>:[[1, 2], [3, 4]]:[['1', '2'], ['3', '4']], "
                    "str:'attrs': dict{str:'a': int:1, str:'b': tuple[int:1, int:2]}}), str:'sub': "
                    "Group(dict{str:'path': str:'/sub', str:'url': str:'s3://bucket/scene', "
                    "str:'data': dict{str:'inner': Group(dict{str:'path': str:'/sub/inner', "
                    "str:'url': str:'other', str:'data': dict{str:'t': Variable(dict{str:'dims': "
                    "list[str:'t'], str:'data': "
                    'ndarray<datetime64[ms],(2,)>:[datetime.datetime(1997, 5, 27, 0, 0), '
                    "datetime.datetime(1997, 5, 27, 0, 2)]:['1997-05-27T00:00:00.000', "
                    "'1997-05-27T00:02:00.000'], str:'attrs': dict{str:'u': str:'v'}})}, "
                    "str:'attrs': dict{}}), str:'img': Variable(dict{str:'dims': list[str:'rows', "
                    "str:'cols'], str:'data': Array(dict{str:'fs': list[str:'DirFileSystem', "
                    "str:'/path/to', str:'MemoryFileSystem', str:'memory'], str:'url': str:'file', "
                    "str:'byte_ranges': list[tuple[int:5, int:10], tuple[int:15, int:20], "
                    "tuple[int:25, int:30], tuple[int:35, int:40]], str:'shape': tuple[int:4, "
                    "int:3], str:'dtype': str:'int16', str:'type_code': str:'IU2', "
                    "str:'records_per_chunk': int:3, str:'chunk_offsets': dict{int:0: "
                    "dict{str:'offset': int:5, str:'size': int:25}, int:1: dict{str:'offset': "
                    "int:35, str:'size': int:5}}}), str:'attrs': dict{str:'k': list[int:1]}})}, "
                    "str:'attrs': dict{str:'d': int:1}}), str:'a': Variable(dict{str:'dims': "
                    "list[str:'x'], str:'data': ndarray<int8,(2,)>:[1, 2]:['1', '2'], str:'attrs': "
                    "dict{}}), str:'sub2': Group(dict{str:'path': str:'/sub2', str:'url': "
                    "str:'s3://bucket/scene', str:'data': dict{}, str:'attrs': dict{}})}, "
                    "str:'attrs': dict{str:'k': tuple[int:1, int:2]}})",
 'spied/array': 'ndarray<datetime64[s],(2,)>:[datetime.datetime(2020, 1, 1, 0, 0), '
                "datetime.datetime(2020, 1, 1, 1, 0)]:['2020-01-01T00:00:00', "
                "'2020-01-01T01:00:00']",
 'spied/failing': "raises TypeError: Cannot interpret '5' as a data type",
 'spied/calls': "list[tuple[str:'decode_hierarchy', int:1, list[str:'records_per_chunk'], int:2], "
                "tuple[str:'decode_variable', int:1, list[str:'records_per_chunk'], int:2], "
                "tuple[str:'decode_array', int:1, list[str:'records_per_chunk'], int:2], "
                "tuple[str:'decode_hierarchy', int:1, list[str:'records_per_chunk'], int:2], "
                "tuple[str:'decode_group', int:1, list[str:'records_per_chunk'], int:2], "
                "tuple[str:'decode_hierarchy', int:1, list[str:'records_per_chunk'], int:2], "
                "tuple[str:'decode_group', int:1, list[str:'records_per_chunk'], int:2], "
                "tuple[str:'decode_hierarchy', int:1, list[str:'records_per_chunk'], int:2], "
                "tuple[str:'decode_variable', int:1, list[str:'records_per_chunk'], int:2], "
                "tuple[str:'decode_array', int:1, list[str:'records_per_chunk'], int:2], "
                "tuple[str:'decode_datetime', int:1, list[], str:'-'], "
                "tuple[str:'decode_hierarchy', int:1, list[str:'records_per_chunk'], int:2], "
                "tuple[str:'decode_variable', int:1, list[str:'records_per_chunk'], int:2], "
                "tuple[str:'decode_array', int:1, list[str:'records_per_chunk'], int:2], "
                "tuple[str:'decode_hierarchy', int:1, list[str:'records_per_chunk'], int:2], "
                "tuple[str:'decode_variable', int:1, list[str:'records_per_chunk'], int:2], "
                "tuple[str:'decode_array', int:1, list[str:'records_per_chunk'], int:2], "
                "tuple[str:'decode_hierarchy', int:1, list[str:'records_per_chunk'], int:2], "
                "tuple[str:'decode_group', int:1, list[str:'records_per_chunk'], int:2], str:'--', "
                "tuple[str:'decode_group', int:1, list[str:'records_per_chunk'], int:3], "
                "tuple[str:'decode_hierarchy', int:1, list[str:'records_per_chunk'], int:3], "
                "tuple[str:'decode_variable', int:1, list[str:'records_per_chunk'], int:3], "
                "tuple[str:'decode_array', int:1, list[str:'records_per_chunk'], int:3], "
                "tuple[str:'decode_hierarchy', int:1, list[str:'records_per_chunk'], int:3], "
                "tuple[str:'decode_group', int:1, list[str:'records_per_chunk'], int:3], "
                "tuple[str:'decode_hierarchy', int:1, list[str:'records_per_chunk'], int:3], "
                "tuple[str:'decode_group', int:1, list[str:'records_per_chunk'], int:3], "
                "tuple[str:'decode_hierarchy', int:1, list[str:'records_per_chunk'], int:3], "
                "tuple[str:'decode_variable', int:1, list[str:'records_per_chunk'], int:3], "
                "tuple[str:'decode_array', int:1, list[str:'records_per_chunk'], int:3], "
                "tuple[str:'decode_datetime', int:1, list[], str:'-'], "
                "tuple[str:'decode_hierarchy', int:1, list[str:'records_per_chunk'], int:3], "
                "tuple[str:'decode_variable', int:1, list[str:'records_per_chunk'], int:3], "
                "tuple[str:'decode_array', int:1, list[str:'records_per_chunk'], int:3], "
                "tuple[str:'decode_hierarchy', int:1, list[str:'records_per_chunk'], int:3], "
                "tuple[str:'decode_variable', int:1, list[str:'records_per_chunk'], int:3], "
                "tuple[str:'decode_array', int:1, list[str:'records_per_chunk'], int:3], "
                "tuple[str:'decode_hierarchy', int:1, list[str:'records_per_chunk'], int:3], "
                "tuple[str:'decode_group', int:1, list[str:'records_per_chunk'], int:3], str:'--', "
                "tuple[str:'decode_datetime', int:1, list[], str:'-'], str:'--', "
                "tuple[str:'decode_group', int:1, list[str:'records_per_chunk'], int:3], "
                "tuple[str:'decode_hierarchy', int:1, list[str:'records_per_chunk'], int:3], "
                "tuple[str:'decode_variable', int:1, list[str:'records_per_chunk'], int:3], "
                "tuple[str:'decode_array', int:1, list[str:'records_per_chunk'], int:3], "
                "tuple[str:'decode_hierarchy', int:1, list[str:'records_per_chunk'], int:3], "
                "tuple[str:'decode_variable', int:1, list[str:'records_per_chunk'], int:3], "
                "tuple[str:'decode_array', int:1, list[str:'records_per_chunk'], int:3]]",
 'patched/datetime': "str:'fake-datetime'",
 'patched/timedelta': 'ndarray<timedelta64[s],(2,)>:[datetime.timedelta(seconds=1), '
                      "datetime.timedelta(seconds=2)]:['1 seconds', '2 seconds']",
 'decode/group/rpc=1': "Group(dict{str:'path': str:'/', str:'url': str:'s3://bucket/scene', "
                       "str:'data': dict{str:'z': Variable(dict{str:'dims': list[str:'x', "
                       "str:'y'], str:'data': ndarray<uint16,(2, 2)>:[[1, 2], [3, 4]]:[['1', '2'], "
                       "['3', '4']], str:'attrs': dict{str:'a': int:1, str:'b': tuple[int:1, "
                       "int:2]}}), str:'sub': Group(dict{str:'path': str:'/sub', str:'url': "
                       "str:'s3://bucket/scene', str:'data': dict{str:'inner': "
                       "Group(dict{str:'path': str:'/sub/inner', str:'url': str:'other', "
                       "str:'data': dict{str:'t': Variable(dict{str:'dims': list[str:'t'], "
                       "str:'data': ndarray<datetime64[ms],(2,)>:[datetime.datetime(1997, 5, 27, "
                       "0, 0), datetime.datetime(1997, 5, 27, 0, 2)]:['1997-05-27T00:00:00.000', "
                       "'1997-05-27T00:02:00.000'], str:'attrs': dict{str:'u': str:'v'}})}, "
                       "str:'attrs': dict{}}), str:'img': Variable(dict{str:'dims': "
                       "list[str:'rows', str:'cols'], str:'data': Array(dict{str:'fs': "
                       "list[str:'DirFileSystem', str:'/path/to', str:'MemoryFileSystem', "
                       "str:'memory'], str:'url': str:'file', str:'byte_ranges': list[tuple[int:5, "
                       'int:10], tuple[int:15, int:20], tuple[int:25, int:30], tuple[int:35, '
                       "int:40]], str:'shape': tuple[int:4, int:3], str:'dtype': str:'int16', "
                       "str:'type_code': str:'IU2', str:'records_per_chunk': int:1, "
                       "str:'chunk_offsets': dict{int:0: dict{str:'offset': int:5, str:'size': "
                       "int:5}, int:1: dict{str:'offset': int:15, str:'size': int:5}, int:2: "
                       "dict{str:'offset': int:25, str:'size': int:5}, int:3: dict{str:'offset': "
                       "int:35, str:'size': int:5}}}), str:'attrs': dict{str:'k': list[int:1]}})}, "
                       "str:'attrs': dict{str:'d': int:1}}), str:'a': Variable(dict{str:'dims': "
                       "list[str:'x'], str:'data': ndarray<int8,(2,)>:[1, 2]:['1', '2'], "
                       "str:'attrs': dict{}}), str:'sub2': Group(dict{str:'path': str:'/sub2', "
                       "str:'url': str:'s3://bucket/scene', str:'data': dict{}, str:'attrs': "
                       "dict{}})}, str:'attrs': dict{str:'k': tuple[int:1, int:2]}})",
 'decode/group/rpc=auto': "Group(dict{str:'path': str:'/', str:'url': str:'s3://bucket/scene', "
                          "str:'data': dict{str:'z': Variable(dict{str:'dims': list[str:'x', "
                          "str:'y'], str:'data': ndarray<uint16,(2, 2)>:[[1, 2], [3, 4]]:[['1', "
                          "'2'], ['3', '4']], str:'attrs': dict{str:'a': int:1, str:'b': "
                          "tuple[int:1, int:2]}}), str:'sub': Group(dict{str:'path': str:'/sub', "
                          "str:'url': str:'s3://bucket/scene', str:'data': dict{str:'inner': "
                          "Group(dict{str:'path': str:'/sub/inner', str:'url': str:'other', "
                          "str:'data': dict{str:'t': Variable(dict{str:'dims': list[str:'t'], "
                          "str:'data': ndarray<datetime64[ms],(2,)>:[datetime.datetime(1997, 5, "
                          '27, 0, 0), datetime.datetime(1997, 5, 27, 0, '
                          "2)]:['1997-05-27T00:00:00.000', '1997-05-27T00:02:00.000'], "
                          "str:'attrs': dict{str:'u': str:'v'}})}, str:'attrs': dict{}}), "
                          "str:'img': Variable(dict{str:'dims': list[str:'rows', str:'cols'], "
                          "str:'data': Array(dict{str:'fs': list[str:'DirFileSystem', "
                          "str:'/path/to', str:'MemoryFileSystem', str:'memory'], str:'url': "
                          "str:'file', str:'byte_ranges': list[tuple[int:5, int:10], tuple[int:15, "
                          "int:20], tuple[int:25, int:30], tuple[int:35, int:40]], str:'shape': "
                          "tuple[int:4, int:3], str:'dtype': str:'int16', str:'type_code': "
                          "str:'IU2', str:'records_per_chunk': int64:np.int64(4), "
                          "str:'chunk_offsets': dict{int:0: dict{str:'offset': int:5, str:'size': "
                          "int:35}}}), str:'attrs': dict{str:'k': list[int:1]}})}, str:'attrs': "
                          "dict{str:'d': int:1}}), str:'a': Variable(dict{str:'dims': "
                          "list[str:'x'], str:'data': ndarray<int8,(2,)>:[1, 2]:['1', '2'], "
                          "str:'attrs': dict{}}), str:'sub2': Group(dict{str:'path': str:'/sub2', "
                          "str:'url': str:'s3://bucket/scene', str:'data': dict{}, str:'attrs': "
                          "dict{}})}, str:'attrs': dict{str:'k': tuple[int:1, int:2]}})",
 'decode/variable/rpc=1': "Variable(dict{str:'dims': list[str:'rows', str:'cols'], str:'data': "
                          "Array(dict{str:'fs': list[str:'DirFileSystem', str:'/path/to', "
                          "str:'MemoryFileSystem', str:'memory'], str:'url': str:'file', "
                          "str:'byte_ranges': list[tuple[int:5, int:10], tuple[int:15, int:20], "
                          "tuple[int:25, int:30], tuple[int:35, int:40]], str:'shape': "
                          "tuple[int:4, int:3], str:'dtype': str:'int16', str:'type_code': "
                          "str:'IU2', str:'records_per_chunk': int:1, str:'chunk_offsets': "
                          "dict{int:0: dict{str:'offset': int:5, str:'size': int:5}, int:1: "
                          "dict{str:'offset': int:15, str:'size': int:5}, int:2: "
                          "dict{str:'offset': int:25, str:'size': int:5}, int:3: "
                          "dict{str:'offset': int:35, str:'size': int:5}}}), str:'attrs': "
                          "dict{str:'k': list[int:1]}})",
 'decode/variable/rpc=auto': "Variable(dict{str:'dims': list[str:'rows', str:'cols'], str:'data': "
                             "Array(dict{str:'fs': list[str:'DirFileSystem', str:'/path/to', "
                             "str:'MemoryFileSystem', str:'memory'], str:'url': str:'file', "
                             "str:'byte_ranges': list[tuple[int:5, int:10], tuple[int:15, int:20], "
                             "tuple[int:25, int:30], tuple[int:35, int:40]], str:'shape': "
                             "tuple[int:4, int:3], str:'dtype': str:'int16', str:'type_code': "
                             "str:'IU2', str:'records_per_chunk': int64:np.int64(4), "
                             "str:'chunk_offsets': dict{int:0: dict{str:'offset': int:5, "
                             "str:'size': int:35}}}), str:'attrs': dict{str:'k': list[int:1]}})",
 'decode/plain/rpc=1': "dict{str:'a': list[int:1, int:2], str:'b': tuple[int:1, list[int:2]]}",
 'decode/plain/rpc=auto': "dict{str:'a': list[int:1, int:2], str:'b': tuple[int:1, list[int:2]]}",
 'decode/tuple/rpc=1': "raises AttributeError: 'tuple' object has no attribute 'get'",
 'decode/tuple/rpc=auto': "raises AttributeError: 'tuple' object has no attribute 'get'",
 'decode/list-type/rpc=1': "raises TypeError: unhashable type: 'list'",
 'decode/list-type/rpc=auto': "raises TypeError: unhashable type: 'list'",
 'decode/tuple-type/rpc=1': "dict{str:'__type__': tuple[str:'group']}",
 'decode/tuple-type/rpc=auto': "dict{str:'__type__': tuple[str:'group']}",
 'decode/list/rpc=1': "raises AttributeError: 'list' object has no attribute 'get'",
 'decode/list/rpc=auto': "raises AttributeError: 'list' object has no attribute 'get'",
 'decode/number/rpc=1': "raises AttributeError: 'int' object has no attribute 'get'",
 'decode/number/rpc=auto': "raises AttributeError: 'int' object has no attribute 'get'",
 'decode/null/rpc=1': "raises AttributeError: 'NoneType' object has no attribute 'get'",
 'decode/null/rpc=auto': "raises AttributeError: 'NoneType' object has no attribute 'get'",
 'decode/empty/rpc=1': 'raises CachingError: invalid or incomplete cache file',
 'decode/empty/rpc=auto': 'raises CachingError: invalid or incomplete cache file',
 'decode/truncated/rpc=1': 'raises CachingError: invalid or incomplete cache file',
 'decode/truncated/rpc=auto': 'raises CachingError: invalid or incomplete cache file',
 'decode/bad-entry/rpc=1': "raises AttributeError: 'int' object has no attribute 'get'",
 'decode/bad-entry/rpc=auto': "raises AttributeError: 'int' object has no attribute 'get'",
 'decode/missing-path/rpc=1': "raises KeyError: 'path'",
 'decode/missing-path/rpc=auto': "raises KeyError: 'path'",
 'roundtrip/text': 'str:\'{"__type__": "group", "url": "s3://bucket/scene", "data": {"z": '
                   '{"__type__": "variable", "dims": ["x", "y"], "data": {"__type__": "array", '
                   '"dtype": "uint16", "data": [[1, 2], [3, 4]], "encoding": {}}, "attrs": {"a": '
                   '1, "b": {"__type__": "tuple", "data": [1, 2]}}}, "sub": {"__type__": "group", '
                   '"url": "s3://bucket/scene", "data": {"inner": {"__type__": "group", "url": '
                   '"other", "data": {"t": {"__type__": "variable", "dims": ["t"], "data": '
                   '{"__type__": "array", "dtype": "datetime64[ms]", "data": [0, 120000], '
                   '"encoding": {"reference": "1997-05-27T00:00:00.000", "units": "ms"}}, "attrs": '
                   '{"u": "v"}}}, "path": "/sub/inner", "attrs": {}}, "img": {"__type__": '
                   '"variable", "dims": ["rows", "cols"], "data": {"__type__": "backend_array", '
                   '"root": "/path/to", "url": "file", "shape": {"__type__": "tuple", "data": [4, '
                   '3]}, "dtype": "int16", "byte_ranges": [{"__type__": "tuple", "data": [5, 10]}, '
                   '{"__type__": "tuple", "data": [15, 20]}, {"__type__": "tuple", "data": [25, '
                   '30]}, {"__type__": "tuple", "data": [35, 40]}], "type_code": "IU2"}, "attrs": '
                   '{"k": [1]}}}, "path": "/sub", "attrs": {"d": 1}}, "a": {"__type__": '
                   '"variable", "dims": ["x"], "data": {"__type__": "array", "dtype": "int8", '
                   '"data": [1, 2], "encoding": {}}, "attrs": {}}, "sub2": {"__type__": "group", '
                   '"url": "s3://bucket/scene", "data": {}, "path": "/sub2", "attrs": {}}}, '
                   '"path": "/", "attrs": {"k": {"__type__": "tuple", "data": [1, 2]}}}\'',
 'roundtrip/equal': 'bool:False',
 'roundtrip/other-rpc': 'bool:False'}
# EXPECTED-END

if __name__ == "__main__":
    if "--record" in sys.argv:
        print("EXPECTED = " + pprint.pformat(collect(), width=100, sort_dicts=False))
    else:
        n = check()
        print(f"ok: {n} cases identical to the recorded results")
