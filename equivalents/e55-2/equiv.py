"""Equivalence check for refactoring 2 (ceos_alos2/sar_leader/attitude.py).

Run as a script (``PYTHONPATH=<worktree> python equiv.py``, exit status 0 on success) or
with pytest (``python -m pytest -q -p no:cacheprovider equiv.py``).  Every case calls one of
the touched functions (``transform_time``, ``prepend_dim``, ``transform_section``,
``transform_attitude``, and the caller ``sar_leader.metadata.transform_metadata``) on deep
copies of the inputs and compares the canonical, type- and order-preserving serialisation of
the result (or the type and message of the exception), plus the state of the inputs after the
call, with a recording made with the UNCHANGED code (``python equiv.py --record`` rewrites
the recording).  Inputs are hand-written edge cases and attitude records parsed by the real
construct declaration from synthesised bytes.  Long serialisations are stored as sha256 digests.
"""
import copy
import hashlib
import math
import pathlib
import pprint
import random
import struct
import sys

import numpy as np

from ceos_alos2.hierarchy import Group, Variable

# --------------------------------------------------------------------------
# canonical, type-preserving and order-preserving serialisation of results
# --------------------------------------------------------------------------


def canon(obj):
    if isinstance(obj, Group):
        return (
            "Group",
            obj.path,
            obj.url,
            canon(obj.attrs),
            [(canon(k), canon(v)) for k, v in obj.data.items()],
        )
    if isinstance(obj, Variable):
        return ("Variable", canon(obj.dims), canon(obj.data), canon(obj.attrs))
    if isinstance(obj, np.ndarray):
        if obj.dtype.kind in "mM":
            values = obj.astype("int64").tolist()
        else:
            values = obj.tolist()
        return ("ndarray", str(obj.dtype), obj.shape, canon(values))
    if isinstance(obj, np.generic):
        return ("npscalar", type(obj).__name__, str(obj.dtype), repr(obj.tolist()))
    if isinstance(obj, dict):
        return (type(obj).__name__, [(canon(k), canon(v)) for k, v in obj.items()])
    if isinstance(obj, (list, tuple)):
        return (type(obj).__name__, [canon(v) for v in obj])
    if isinstance(obj, float):
        return ("float", "nan" if math.isnan(obj) else repr(obj))
    if isinstance(obj, complex):
        return ("complex", canon(obj.real), canon(obj.imag))
    if obj is None or isinstance(obj, (bool, int, str, bytes)):
        return (type(obj).__name__, repr(obj))
    if callable(obj):
        return ("callable", getattr(obj, "__name__", type(obj).__name__))
    return ("other", type(obj).__module__, type(obj).__name__, repr(obj))


def run(func, *args, **kwargs):
    """call ``func`` on private copies; record result or exception, and the inputs afterwards"""
    args = copy.deepcopy(args)
    kwargs = copy.deepcopy(kwargs)
    try:
        result = ("ok", canon(func(*args, **kwargs)))
    except Exception as e:  # noqa: BLE001
        result = ("raises", type(e).__name__, str(e))
    return repr((result, ("inputs-after", canon(args), canon(kwargs))))


def digest(text):
    if len(text) <= 300:
        return text
    status = "ok" if text.startswith("(('ok'") else "raises"
    return f"sha256[{status}]:{hashlib.sha256(text.encode()).hexdigest()}:{len(text)}"


# --------------------------------------------------------------------------
# synthesise bytes for a construct declaration (all CEOS fields are fixed
# width ASCII), so that the real parser produces the transformers' inputs
# --------------------------------------------------------------------------


def _ctx_get(expr, ctx):
    return expr(ctx) if callable(expr) else expr


def synthesize(con, rng, overrides=None, blank_rate=0.0):
    """return bytes parsable by ``con``

    ``overrides`` maps dotted paths (array indices omitted) to the decoded value
    the field should have (ints / floats / strings), or to a callable ``(rng) -> value``.
    """
    import construct

    from ceos_alos2 import datatypes

    overrides = overrides or {}

    def text(value, width):
        raw = str(value)
        assert len(raw) <= width, (raw, width)
        return raw.rjust(width).encode("ascii")

    def leaf_value(kind, path, width):
        if path in overrides:
            value = overrides[path]
            return value(rng) if callable(value) else value
        if blank_rate and rng.random() < blank_rate:
            return ""
        if kind == "int":
            return rng.randrange(0, 10 ** min(width - 1, 4))
        if kind == "float":
            return f"{rng.uniform(-1000, 1000):.{max(0, min(5, width - 6))}f}"
        alphabet = "ABCDEFGHIJKLMNOPQRSTUVWXYZ0123456789-"
        return "".join(rng.choice(alphabet) for _ in range(rng.randrange(0, min(width, 12) + 1)))

    def gen(con, ctx, path):
        if isinstance(con, construct.Renamed):
            return gen(con.subcon, ctx, path)
        if isinstance(con, construct.Struct):
            sub = construct.Container()
            sub["_"] = ctx
            chunks = []
            for sc in con.subcons:
                subpath = f"{path}.{sc.name}" if path else sc.name
                data, value = gen(sc, sub, subpath)
                sub[sc.name] = value
                chunks.append(data)
            return b"".join(chunks), sub
        if isinstance(con, construct.Array):
            count = _ctx_get(con.count, ctx)
            chunks, values = [], []
            for _ in range(count):
                data, value = gen(con.subcon, ctx, path)
                chunks.append(data)
                values.append(value)
            return b"".join(chunks), values
        if isinstance(con, construct.FormatField):
            value = overrides.get(path, 0)
            return struct.pack(con.fmtstr, value), value
        if isinstance(con, construct.Enum):
            choices = sorted(con.encmapping.values(), key=repr)
            value = overrides.get(path, None)
            if value is None:
                value = rng.choice(choices)
            width = con.subcon._sizeof(ctx, path)
            return text(value, width), value
        if isinstance(con, datatypes.AsciiInteger):
            width = con._sizeof(ctx, path)
            value = leaf_value("int", path, width)
            return text(value, width), (-1 if value == "" else int(value))
        if isinstance(con, datatypes.AsciiFloat):
            width = con._sizeof(ctx, path)
            value = leaf_value("float", path, width)
            return text(value, width), value
        if isinstance(con, datatypes.PaddedString):
            width = con._sizeof(ctx, path)
            value = leaf_value("str", path, width)
            return text(value, width), value
        if isinstance(con, construct.Adapter):  # Metadata, Factor, AsciiComplex
            return gen(con.subcon, ctx, path)
        raise TypeError(f"cannot synthesise {con!r} at {path}")

    data, _ = gen(con, construct.Container(), "")
    return data


def preamble(record_length, sequence_number=1, subtypes=(18, 10, 18, 20)):
    return {
        "preamble.record_sequence_number": sequence_number,
        "preamble.first_record_subtype": subtypes[0],
        "preamble.record_type": subtypes[1],
        "preamble.second_record_subtype": subtypes[2],
        "preamble.third_record_subtype": subtypes[3],
        "preamble.record_length": record_length,
    }


def parse(con, data):
    from ceos_alos2.utils import to_dict

    return to_dict(con.parse(data))


def sample_records(seed, blank_rate=0.0, designator="UTM-PROJECTION", n_points=3, n_channels=2):
    """parse synthesised bytes of every SAR leader record kind with the real declarations"""
    from ceos_alos2.sar_leader import (
        attitude,
        data_quality_summary,
        dataset_summary,
        facility_related_data,
        map_projection,
        platform_position,
        radiometric_data,
    )

    rng = random.Random(seed)

    def date(rng):
        return f"{rng.randrange(1990, 2030)} {rng.randrange(1, 13):02d} {rng.randrange(1, 29):02d}"

    def timestamp(rng):
        return (
            f"{rng.randrange(1990, 2030)}{rng.randrange(1, 13):02d}{rng.randrange(1, 29):02d}"
            f"{rng.randrange(24):02d}{rng.randrange(60):02d}{rng.randrange(60):02d}"
            f"{rng.randrange(1000):03d}"
        )

    specs = {
        "dataset_summary": (
            dataset_summary.dataset_summary_record,
            preamble(4096) | {"scene_center_time": timestamp},
        ),
        "map_projection": (
            map_projection.map_projection_record,
            preamble(1620) | {"map_projection_designator": designator},
        ),
        "platform_position": (
            platform_position.platform_position_record,
            preamble(4680)
            | {
                "datetime_of_first_point.date": date,
                "datetime_of_first_point.seconds_of_day": lambda rng: f"{rng.uniform(0, 86400):.6f}",
                "occurrence_flag_of_a_leap_second": lambda rng: rng.randrange(2),
            },
        ),
        "attitude": (
            attitude.attitude_record,
            preamble(12 + 4 + n_points * 120 + 20)
            | {
                "number_of_points": n_points,
                "data_points.time.day_of_year": lambda rng: rng.randrange(1, 366),
                "data_points.time.millisecond_of_day": lambda rng: rng.randrange(86400000),
                **{
                    f"data_points.{section}.{name}_error": (lambda rng: rng.randrange(3))
                    for section in ("attitude", "rates")
                    for name in ("pitch", "roll", "yaw")
                },
            },
        ),
        "radiometric_data": (radiometric_data.radiometric_data_record, preamble(9860)),
        "data_quality_summary": (
            data_quality_summary.data_quality_summary_record,
            preamble(1620) | {"number_of_channels": n_channels},
        ),
        "facility_related_data_1": (
            facility_related_data.facility_related_data_record,
            preamble(12 + 4 + 50 + 40) | {"record_sequence_number": lambda rng: rng.randrange(0, 6)},
        ),
        "facility_related_data_5": (
            facility_related_data.facility_related_data_5_record,
            preamble(5000) | {"prf_switching_flag": lambda rng: rng.randrange(2)},
        ),
    }
    rates = {name: blank_rate for name in specs}
    # fields without which the transformers raise are always filled in via the overrides
    return {
        name: parse(con, synthesize(con, rng, overrides, blank_rate=rates[name]))
        for name, (con, overrides) in specs.items()
    }


# --------------------------------------------------------------------------
# harness
# --------------------------------------------------------------------------

BEGIN = "# --- BEGIN " + "EXPECTED (recorded from the unchanged code) ---"
END = "# --- END " + "EXPECTED ---"


def main(build_cases, expected, file):
    cases = build_cases()
    ids = [case_id for case_id, _ in cases]
    assert len(ids) == len(set(ids)), "duplicate case ids"
    actual = {case_id: digest(thunk()) for case_id, thunk in cases}

    if "--record" in sys.argv:
        path = pathlib.Path(file)
        source = path.read_text()
        head, rest = source.split(BEGIN, 1)
        _, tail = rest.split(END, 1)
        block = "EXPECTED = " + pprint.pformat(actual, width=100, sort_dicts=False)
        path.write_text(f"{head}{BEGIN}\n{block}\n{END}{tail}")
        print(f"recorded {len(actual)} cases")
        return 0

    failures = []
    for case_id in ids:
        if case_id not in expected:
            failures.append((case_id, "<not recorded>", actual[case_id]))
        elif expected[case_id] != actual[case_id]:
            failures.append((case_id, expected[case_id], actual[case_id]))
    missing = sorted(set(expected) - set(ids))
    for case_id, want, got in failures:
        print(f"MISMATCH {case_id}\n  expected: {want}\n  actual:   {got}")
    if missing:
        print("cases recorded but not run:", missing)
    n_raises = sum(1 for value in actual.values() if "raises" in value[:16])
    print(
        f"{len(ids) - len(failures)}/{len(ids)} cases identical to the recording"
        f" ({len(ids) - n_raises} results, {n_raises} exceptions)"
    )
    return 1 if failures or missing else 0


# --------------------------------------------------------------------------
# cases: ceos_alos2/sar_leader/attitude.py
# --------------------------------------------------------------------------
import collections

from ceos_alos2.sar_leader import attitude, metadata


def aliasing(mapping):
    """object identities in the result of `transform_attitude` (shared time coordinate)"""
    group = attitude.transform_attitude(mapping)
    sections = list(group.data.values())
    times = [s.data["time"].data for s in sections if "time" in s.data]
    coords = [s.attrs["coordinates"] for s in sections]
    return {
        "time-shared": [a is b for a in times for b in times],
        "coordinates-shared": [a is b for a in coords for b in coords],
        "attrs-shared": [a.attrs is b.attrs for a in sections for b in sections],
    }


def build_cases():
    cases = []

    def add(case_id, func, *args, **kwargs):
        cases.append((case_id, lambda: run(func, *args, **kwargs)))

    # ---- transform_time
    times = [
        {"day_of_year": [0, 1], "millisecond_of_day": [548, 749]},
        {"day_of_year": [9], "millisecond_of_day": [698]},
        {"millisecond_of_day": [698, 1], "day_of_year": [9, 365]},
        {"day_of_year": [], "millisecond_of_day": []},
        {"day_of_year": 3, "millisecond_of_day": 5},
        {"day_of_year": [-1, 366], "millisecond_of_day": [-1, 86399999]},
        {"day_of_year": [1, 2, 3], "millisecond_of_day": [1]},
        {"day_of_year": [1, 2, 3], "millisecond_of_day": [1, 2]},
        {"day_of_year": [[1, 2], [3, 4]], "millisecond_of_day": [10, 20]},
        {"day_of_year": [1.0], "millisecond_of_day": [2.5]},
        {"day_of_year": ["1"], "millisecond_of_day": ["2"]},
        {"day_of_year": ["a"], "millisecond_of_day": [2]},
        {"day_of_year": [None], "millisecond_of_day": [2]},
        {"day_of_year": [True], "millisecond_of_day": [False]},
        {"day_of_year": [2**40], "millisecond_of_day": [2**62]},
        {"day_of_year": np.array([1, 2]), "millisecond_of_day": np.array([3, 4], dtype="int8")},
        {"day_of_year": np.array([1], dtype="timedelta64[h]"), "millisecond_of_day": [1]},
        {"day_of_year": [1]},
        {"millisecond_of_day": [1]},
        {},
        {"day_of_year": [1], "millisecond_of_day": [2], "second_of_day": [3]},
        {"year": [1], "day_of_year": ["x"], "millisecond_of_day": [2]},
        {"day_of_year": ["x"], "year": [1], "millisecond_of_day": [2]},
        collections.OrderedDict(millisecond_of_day=[5], day_of_year=[6]),
        [("day_of_year", [1])],
        None,
    ]
    for index, value in enumerate(times):
        add(f"transform_time/{index}", attitude.transform_time, value)

    # ---- prepend_dim
    variables = [
        1, (1, {"b": 1}), {"a": 1}, {}, (), (1,), (1, {}, 3), ("y", [1, 2], {"u": "m"}),
        [1, 2], [], None, "abc", 1.5, np.arange(3),
        {"a": 1, "b": (2, {"c": 3}), "d": {"e": [1], "f": {"g": ()}}},
        {"z": {"y": {"x": (1, {})}}, "a": [1]},
        collections.OrderedDict(b=1, a=(2, {})),
        {"a": collections.OrderedDict(b=(1, {}))},
        ({"a": 1}, {}),
        [(1, {}), (2, {})],
        {1: 2, None: (3,)},
    ]
    for index, value in enumerate(variables):
        for dim in ["x", "points", ["x", "y"], None, 1, ("a",)]:
            add(f"prepend_dim/{index}/{dim!r}", attitude.prepend_dim, dim, value)

    # ---- transform_section
    sections = [
        {
            "roll": [(1, {"units": "deg"}), (2, {"units": "deg"})],
            "pitch": [(2, {"units": "deg"}), (3, {"units": "deg"})],
            "yaw": [(3, {"units": "deg"}), (4, {"units": "deg"})],
        },
        {"roll_error": [0, 1], "pitch_error": [1, 0], "yaw_error": [1, 1]},
        {"yaw_error": [-1, 0, 2, 0.0, "", "x", None, [], [0]], "other": [0, 1], "pitch": [1, 2]},
        {},
        {"roll": [], "roll_error": []},
        {"roll": [(1, {"a": 1}), (2, {"a": 2})], "pitch": [(1,)], "yaw": [()]},
        {"roll": (1, {}), "pitch": None, "yaw": 5},
        {"roll": [(1, {}), 2]},
        {"roll": [(1, {}, 3)]},
        {"roll_error": 1},
        {"pitch_error": None},
        {"yaw_error": "abc"},
        {"yaw_error": (0, 1)},
        {"yaw_error": {"a": 0, "": 1}},
        {"yaw_error": np.array([0, 1, 2])},
        {"yaw_error": range(3)},
        {"ROLL": [(1, {})], "roll_errors": [0, 1], "time": [1, 2]},
        collections.OrderedDict(yaw=[(1, {"u": "deg"})], pitch_error=[3]),
        [("roll", [])],
        None,
    ]
    for index, value in enumerate(sections):
        add(f"transform_section/{index}", attitude.transform_section, value)

    # ---- transform_attitude
    point = {
        "time": {"day_of_year": 12, "millisecond_of_day": 1000},
        "attitude": {
            "pitch_error": 0, "roll_error": 1, "yaw_error": 2,
            "pitch": (0.5, {"units": "deg"}), "roll": (1.5, {"units": "deg"}),
            "yaw": (2.5, {"units": "deg"}),
        },
        "rates": {
            "pitch_error": -1, "roll_error": 0, "yaw_error": 0,
            "pitch": (0.25, {"units": "deg/s"}), "roll": (float("nan"), {"units": "deg/s"}),
            "yaw": (-2.5, {"units": "deg/s"}),
        },
    }

    def shifted(offset):
        new = copy.deepcopy(point)
        new["time"]["millisecond_of_day"] += offset
        new["attitude"]["pitch"] = (offset * 1.0, {"units": "deg"})
        return new

    def without(mapping, *keys):
        return {k: v for k, v in mapping.items() if k not in keys}

    raw_points = {
        "test-transformed": [
            {"a": {"b": 1, "c": 2}, "d": {"e": 3}},
            {"a": {"b": 2, "c": 3}, "d": {"e": 4}},
            {"a": {"b": 3, "c": 4}, "d": {"e": 5}},
        ],
        "test-time": [
            {"time": {"day_of_year": 0, "millisecond_of_day": 10 + i}} for i in range(4)
        ],
        "full-1": [point],
        "full-3": [shifted(i) for i in range(3)],
        "no-time": [without(shifted(i), "time") for i in range(2)],
        "no-rates": [without(shifted(i), "rates") for i in range(2)],
        "only-rates": [without(shifted(i), "time", "attitude") for i in range(2)],
        "rates-first": [
            {"rates": p["rates"], "time": p["time"], "attitude": p["attitude"]}
            for p in [shifted(1), shifted(2)]
        ],
        "extra-section": [dict(shifted(i), extra={"x": i}, flag=i) for i in range(2)],
        "scalar-sections": [{"time": {"day_of_year": 1, "millisecond_of_day": 2}, "attitude": 1}],
        "ragged": [shifted(0), without(shifted(1), "rates")],
        "bad-time": [{"time": {"day_of_year": "x", "millisecond_of_day": 1}}],
        "time-extra-key": [{"time": {"day_of_year": 1, "millisecond_of_day": 1, "year": 2020}}],
        "time-missing-key": [{"time": {"day_of_year": 1}}],
        "section-not-dict": [{"time": {"day_of_year": 1, "millisecond_of_day": 1}, "rates": [1]}],
        "empty": [],
        "empty-dicts": [{}, {}],
        "not-dicts": [1, 2],
        "mixed": [point, 1],
        "none": None,
        "dict": {"time": [{"day_of_year": 1, "millisecond_of_day": 2}], "attitude": {"pitch": []}},
        "tuple": (point,),
    }
    for name, points in raw_points.items():
        mapping = {"preamble": {}, "number_of_points": 0, "data_points": points, "blanks": ""}
        add(f"transform_attitude/{name}", attitude.transform_attitude, mapping)
        add(f"transform_attitude/aliasing/{name}", aliasing, mapping)
    add("transform_attitude/missing-key", attitude.transform_attitude, {"number_of_points": 0})
    add("transform_attitude/empty-mapping", attitude.transform_attitude, {})
    add("transform_attitude/mapping-list", attitude.transform_attitude, [point])
    add("transform_attitude/mapping-empty-list", attitude.transform_attitude, [])
    add("transform_attitude/mapping-none", attitude.transform_attitude, None)
    add("transform_attitude/string", attitude.transform_attitude, "data_points")
    add(
        "transform_attitude/ordered-dict",
        attitude.transform_attitude,
        collections.OrderedDict(data_points=[shifted(3), shifted(4)]),
    )

    # ---- bytes -> parser -> transformers
    for seed, kwargs in enumerate(
        [
            {"n_points": 3},
            {"n_points": 1},
            {"n_points": 0},
            {"n_points": 7, "blank_rate": 0.05},
            {"n_points": 22, "blank_rate": 0.3},
            {"n_points": 2, "blank_rate": 1.0},
        ]
    ):
        records = sample_records(seed, **kwargs)
        add(f"records/{seed}/transform_attitude", attitude.transform_attitude, records["attitude"])
        add(f"records/{seed}/aliasing", aliasing, records["attitude"])
        for index, raw in enumerate(records["attitude"]["data_points"][:2]):
            add(f"records/{seed}/transform_time/{index}", attitude.transform_time, raw["time"])
        leader = dict(records)
        leader["map_projection"] = [records["map_projection"]]
        add(f"records/{seed}/transform_metadata", metadata.transform_metadata, leader)
        add(
            f"records/{seed}/transform_metadata/attitude-only",
            metadata.transform_metadata,
            {"attitude": records["attitude"]},
        )

    return cases


# --- BEGIN EXPECTED (recorded from the unchanged code) ---
EXPECTED = {'transform_time/0': 'sha256[ok]:8ae85efcf4fff84a67f237b618e8133e83fa025772a9cacae37909d827f16310:311',
 'transform_time/1': "(('ok', ('ndarray', 'timedelta64[ns]', (1,), ('list', [('int', "
                     "'777600698000000')]))), ('inputs-after', ('tuple', [('dict', [(('str', "
                     '"\'day_of_year\'"), (\'list\', [(\'int\', \'9\')])), ((\'str\', '
                     '"\'millisecond_of_day\'"), (\'list\', [(\'int\', \'698\')]))])]), (\'dict\', '
                     '[])))',
 'transform_time/2': 'sha256[ok]:fa6ebe9e08ae114e0dc32ddc1f5c3c2c3dd4cc627d754f48036ad24d7ff05a61:320',
 'transform_time/3': "(('ok', ('ndarray', 'timedelta64[ns]', (0,), ('list', []))), "
                     '(\'inputs-after\', (\'tuple\', [(\'dict\', [((\'str\', "\'day_of_year\'"), '
                     '(\'list\', [])), ((\'str\', "\'millisecond_of_day\'"), (\'list\', []))])]), '
                     "('dict', [])))",
 'transform_time/4': "(('ok', ('npscalar', 'timedelta64', 'timedelta64[ns]', '259200005000000')), "
                     '(\'inputs-after\', (\'tuple\', [(\'dict\', [((\'str\', "\'day_of_year\'"), '
                     '(\'int\', \'3\')), ((\'str\', "\'millisecond_of_day\'"), (\'int\', '
                     "'5'))])]), ('dict', [])))",
 'transform_time/5': 'sha256[ok]:69fca4c9ff00dc81b7e044a407f019b14b472d2235ccb9b9936ee44ce083f6f4:327',
 'transform_time/6': 'sha256[ok]:f729ae03f628adc8a03cd9e2556691d31e487163ec87d645c7e60c089c10153c:341',
 'transform_time/7': 'sha256[raises]:caf30288e4b7993a69952afdb7b4c5a56eacfd017e995ff71644ec2eb5afa954:307',
 'transform_time/8': 'sha256[ok]:b57bf3012dc0c99b3961c37ae1456124477ae51fae27cd5efc7b28c695058bb6:449',
 'transform_time/9': "(('raises', 'ValueError', 'Could not convert object to NumPy timedelta'), "
                     '(\'inputs-after\', (\'tuple\', [(\'dict\', [((\'str\', "\'day_of_year\'"), '
                     '(\'list\', [(\'float\', \'1.0\')])), ((\'str\', "\'millisecond_of_day\'"), '
                     "('list', [('float', '2.5')]))])]), ('dict', [])))",
 'transform_time/10': "(('ok', ('ndarray', 'timedelta64[ns]', (1,), ('list', [('int', "
                      "'86400002000000')]))), ('inputs-after', ('tuple', [('dict', [(('str', "
                      '"\'day_of_year\'"), (\'list\', [(\'str\', "\'1\'")])), ((\'str\', '
                      '"\'millisecond_of_day\'"), (\'list\', [(\'str\', "\'2\'")]))])]), '
                      "('dict', [])))",
 'transform_time/11': "(('raises', 'ValueError', 'Could not convert object to NumPy timedelta'), "
                      '(\'inputs-after\', (\'tuple\', [(\'dict\', [((\'str\', "\'day_of_year\'"), '
                      '(\'list\', [(\'str\', "\'a\'")])), ((\'str\', "\'millisecond_of_day\'"), '
                      "('list', [('int', '2')]))])]), ('dict', [])))",
 'transform_time/12': "(('ok', ('ndarray', 'timedelta64[ns]', (1,), ('list', [('int', "
                      "'-9223372036854775808')]))), ('inputs-after', ('tuple', [('dict', [(('str', "
                      '"\'day_of_year\'"), (\'list\', [(\'NoneType\', \'None\')])), ((\'str\', '
                      '"\'millisecond_of_day\'"), (\'list\', [(\'int\', \'2\')]))])]), (\'dict\', '
                      '[])))',
 'transform_time/13': "(('ok', ('ndarray', 'timedelta64[ns]', (1,), ('list', [('int', "
                      "'86400000000000')]))), ('inputs-after', ('tuple', [('dict', [(('str', "
                      '"\'day_of_year\'"), (\'list\', [(\'bool\', \'True\')])), ((\'str\', '
                      '"\'millisecond_of_day\'"), (\'list\', [(\'bool\', \'False\')]))])]), '
                      "('dict', [])))",
 'transform_time/14': "(('raises', 'OverflowError', 'Overflow when converting between datetime64 "
                      "units'), ('inputs-after', ('tuple', [('dict', [(('str', "
                      '"\'day_of_year\'"), (\'list\', [(\'int\', \'1099511627776\')])), ((\'str\', '
                      '"\'millisecond_of_day\'"), (\'list\', [(\'int\', '
                      "'4611686018427387904')]))])]), ('dict', [])))",
 'transform_time/15': 'sha256[ok]:b9d3eab83055906fe2a3f441ad0767352e2fa9a856a61a11d0b8ad55a0960030:368',
 'transform_time/16': "(('ok', ('ndarray', 'timedelta64[ns]', (1,), ('list', [('int', "
                      "'1000000')]))), ('inputs-after', ('tuple', [('dict', [(('str', "
                      '"\'day_of_year\'"), (\'ndarray\', \'timedelta64[h]\', (1,), (\'list\', '
                      '[(\'int\', \'1\')]))), ((\'str\', "\'millisecond_of_day\'"), (\'list\', '
                      "[('int', '1')]))])]), ('dict', [])))",
 'transform_time/17': '((\'raises\', \'KeyError\', "\'millisecond_of_day\'"), (\'inputs-after\', '
                      '(\'tuple\', [(\'dict\', [((\'str\', "\'day_of_year\'"), (\'list\', '
                      "[('int', '1')]))])]), ('dict', [])))",
 'transform_time/18': '((\'raises\', \'KeyError\', "\'day_of_year\'"), (\'inputs-after\', '
                      '(\'tuple\', [(\'dict\', [((\'str\', "\'millisecond_of_day\'"), (\'list\', '
                      "[('int', '1')]))])]), ('dict', [])))",
 'transform_time/19': '((\'raises\', \'KeyError\', "\'day_of_year\'"), (\'inputs-after\', '
                      "('tuple', [('dict', [])]), ('dict', [])))",
 'transform_time/20': '((\'raises\', \'KeyError\', "\'second_of_day\'"), (\'inputs-after\', '
                      '(\'tuple\', [(\'dict\', [((\'str\', "\'day_of_year\'"), (\'list\', '
                      '[(\'int\', \'1\')])), ((\'str\', "\'millisecond_of_day\'"), (\'list\', '
                      '[(\'int\', \'2\')])), ((\'str\', "\'second_of_day\'"), (\'list\', '
                      "[('int', '3')]))])]), ('dict', [])))",
 'transform_time/21': '((\'raises\', \'KeyError\', "\'year\'"), (\'inputs-after\', (\'tuple\', '
                      '[(\'dict\', [((\'str\', "\'year\'"), (\'list\', [(\'int\', \'1\')])), '
                      '((\'str\', "\'day_of_year\'"), (\'list\', [(\'str\', "\'x\'")])), '
                      '((\'str\', "\'millisecond_of_day\'"), (\'list\', [(\'int\', \'2\')]))])]), '
                      "('dict', [])))",
 'transform_time/22': "(('raises', 'ValueError', 'Could not convert object to NumPy timedelta'), "
                      '(\'inputs-after\', (\'tuple\', [(\'dict\', [((\'str\', "\'day_of_year\'"), '
                      '(\'list\', [(\'str\', "\'x\'")])), ((\'str\', "\'year\'"), (\'list\', '
                      '[(\'int\', \'1\')])), ((\'str\', "\'millisecond_of_day\'"), (\'list\', '
                      "[('int', '2')]))])]), ('dict', [])))",
 'transform_time/23': "(('ok', ('ndarray', 'timedelta64[ns]', (1,), ('list', [('int', "
                      "'518400005000000')]))), ('inputs-after', ('tuple', [('OrderedDict', "
                      '[((\'str\', "\'millisecond_of_day\'"), (\'list\', [(\'int\', \'5\')])), '
                      '((\'str\', "\'day_of_year\'"), (\'list\', [(\'int\', \'6\')]))])]), '
                      "('dict', [])))",
 'transform_time/24': '((\'raises\', \'AttributeError\', "\'list\' object has no attribute '
                      '\'items\'"), (\'inputs-after\', (\'tuple\', [(\'list\', [(\'tuple\', '
                      '[(\'str\', "\'day_of_year\'"), (\'list\', [(\'int\', \'1\')])])])]), '
                      "('dict', [])))",
 'transform_time/25': '((\'raises\', \'AttributeError\', "\'NoneType\' object has no attribute '
                      '\'items\'"), (\'inputs-after\', (\'tuple\', [(\'NoneType\', \'None\')]), '
                      "('dict', [])))",
 "prepend_dim/0/'x'": '((\'ok\', (\'tuple\', [(\'str\', "\'x\'"), (\'int\', \'1\'), (\'dict\', '
                      '[])])), (\'inputs-after\', (\'tuple\', [(\'str\', "\'x\'"), (\'int\', '
                      "'1')]), ('dict', [])))",
 "prepend_dim/0/'points'": '((\'ok\', (\'tuple\', [(\'str\', "\'points\'"), (\'int\', \'1\'), '
                           "('dict', [])])), ('inputs-after', ('tuple', [('str', "
                           '"\'points\'"), (\'int\', \'1\')]), (\'dict\', [])))',
 "prepend_dim/0/['x', 'y']": '((\'ok\', (\'tuple\', [(\'list\', [(\'str\', "\'x\'"), (\'str\', '
                             '"\'y\'")]), (\'int\', \'1\'), (\'dict\', [])])), (\'inputs-after\', '
                             '(\'tuple\', [(\'list\', [(\'str\', "\'x\'"), (\'str\', "\'y\'")]), '
                             "('int', '1')]), ('dict', [])))",
 'prepend_dim/0/None': "(('ok', ('tuple', [('NoneType', 'None'), ('int', '1'), ('dict', [])])), "
                       "('inputs-after', ('tuple', [('NoneType', 'None'), ('int', '1')]), ('dict', "
                       '[])))',
 'prepend_dim/0/1': "(('ok', ('tuple', [('int', '1'), ('int', '1'), ('dict', [])])), "
                    "('inputs-after', ('tuple', [('int', '1'), ('int', '1')]), ('dict', [])))",
 "prepend_dim/0/('a',)": '((\'ok\', (\'tuple\', [(\'tuple\', [(\'str\', "\'a\'")]), (\'int\', '
                         "'1'), ('dict', [])])), ('inputs-after', ('tuple', [('tuple', [('str', "
                         '"\'a\'")]), (\'int\', \'1\')]), (\'dict\', [])))',
 "prepend_dim/1/'x'": '((\'ok\', (\'tuple\', [(\'str\', "\'x\'"), (\'int\', \'1\'), (\'dict\', '
                      '[((\'str\', "\'b\'"), (\'int\', \'1\'))])])), (\'inputs-after\', '
                      '(\'tuple\', [(\'str\', "\'x\'"), (\'tuple\', [(\'int\', \'1\'), (\'dict\', '
                      '[((\'str\', "\'b\'"), (\'int\', \'1\'))])])]), (\'dict\', [])))',
 "prepend_dim/1/'points'": '((\'ok\', (\'tuple\', [(\'str\', "\'points\'"), (\'int\', \'1\'), '
                           '(\'dict\', [((\'str\', "\'b\'"), (\'int\', \'1\'))])])), '
                           '(\'inputs-after\', (\'tuple\', [(\'str\', "\'points\'"), (\'tuple\', '
                           '[(\'int\', \'1\'), (\'dict\', [((\'str\', "\'b\'"), (\'int\', '
                           "'1'))])])]), ('dict', [])))",
 "prepend_dim/1/['x', 'y']": '((\'ok\', (\'tuple\', [(\'list\', [(\'str\', "\'x\'"), (\'str\', '
                             '"\'y\'")]), (\'int\', \'1\'), (\'dict\', [((\'str\', "\'b\'"), '
                             "('int', '1'))])])), ('inputs-after', ('tuple', [('list', [('str', "
                             '"\'x\'"), (\'str\', "\'y\'")]), (\'tuple\', [(\'int\', \'1\'), '
                             '(\'dict\', [((\'str\', "\'b\'"), (\'int\', \'1\'))])])]), (\'dict\', '
                             '[])))',
 'prepend_dim/1/None': "(('ok', ('tuple', [('NoneType', 'None'), ('int', '1'), ('dict', [(('str', "
                       '"\'b\'"), (\'int\', \'1\'))])])), (\'inputs-after\', (\'tuple\', '
                       "[('NoneType', 'None'), ('tuple', [('int', '1'), ('dict', [(('str', "
                       '"\'b\'"), (\'int\', \'1\'))])])]), (\'dict\', [])))',
 'prepend_dim/1/1': "(('ok', ('tuple', [('int', '1'), ('int', '1'), ('dict', [(('str', "
                    '"\'b\'"), (\'int\', \'1\'))])])), (\'inputs-after\', (\'tuple\', [(\'int\', '
                    '\'1\'), (\'tuple\', [(\'int\', \'1\'), (\'dict\', [((\'str\', "\'b\'"), '
                    "('int', '1'))])])]), ('dict', [])))",
 "prepend_dim/1/('a',)": '((\'ok\', (\'tuple\', [(\'tuple\', [(\'str\', "\'a\'")]), (\'int\', '
                         '\'1\'), (\'dict\', [((\'str\', "\'b\'"), (\'int\', \'1\'))])])), '
                         '(\'inputs-after\', (\'tuple\', [(\'tuple\', [(\'str\', "\'a\'")]), '
                         '(\'tuple\', [(\'int\', \'1\'), (\'dict\', [((\'str\', "\'b\'"), '
                         "('int', '1'))])])]), ('dict', [])))",
 "prepend_dim/2/'x'": '((\'ok\', (\'dict\', [((\'str\', "\'a\'"), (\'tuple\', [(\'str\', "\'x\'"), '
                      "('int', '1'), ('dict', [])]))])), ('inputs-after', ('tuple', [('str', "
                      '"\'x\'"), (\'dict\', [((\'str\', "\'a\'"), (\'int\', \'1\'))])]), '
                      "('dict', [])))",
 "prepend_dim/2/'points'": '((\'ok\', (\'dict\', [((\'str\', "\'a\'"), (\'tuple\', [(\'str\', '
                           '"\'points\'"), (\'int\', \'1\'), (\'dict\', [])]))])), '
                           '(\'inputs-after\', (\'tuple\', [(\'str\', "\'points\'"), (\'dict\', '
                           '[((\'str\', "\'a\'"), (\'int\', \'1\'))])]), (\'dict\', [])))',
 "prepend_dim/2/['x', 'y']": '((\'ok\', (\'dict\', [((\'str\', "\'a\'"), (\'tuple\', [(\'list\', '
                             '[(\'str\', "\'x\'"), (\'str\', "\'y\'")]), (\'int\', \'1\'), '
                             "('dict', [])]))])), ('inputs-after', ('tuple', [('list', [('str', "
                             '"\'x\'"), (\'str\', "\'y\'")]), (\'dict\', [((\'str\', "\'a\'"), '
                             "('int', '1'))])]), ('dict', [])))",
 'prepend_dim/2/None': '((\'ok\', (\'dict\', [((\'str\', "\'a\'"), (\'tuple\', [(\'NoneType\', '
                       "'None'), ('int', '1'), ('dict', [])]))])), ('inputs-after', ('tuple', "
                       '[(\'NoneType\', \'None\'), (\'dict\', [((\'str\', "\'a\'"), (\'int\', '
                       "'1'))])]), ('dict', [])))",
 'prepend_dim/2/1': '((\'ok\', (\'dict\', [((\'str\', "\'a\'"), (\'tuple\', [(\'int\', \'1\'), '
                    "('int', '1'), ('dict', [])]))])), ('inputs-after', ('tuple', [('int', '1'), "
                    '(\'dict\', [((\'str\', "\'a\'"), (\'int\', \'1\'))])]), (\'dict\', [])))',
 "prepend_dim/2/('a',)": '((\'ok\', (\'dict\', [((\'str\', "\'a\'"), (\'tuple\', [(\'tuple\', '
                         '[(\'str\', "\'a\'")]), (\'int\', \'1\'), (\'dict\', [])]))])), '
                         '(\'inputs-after\', (\'tuple\', [(\'tuple\', [(\'str\', "\'a\'")]), '
                         '(\'dict\', [((\'str\', "\'a\'"), (\'int\', \'1\'))])]), (\'dict\', [])))',
 "prepend_dim/3/'x'": "(('ok', ('dict', [])), ('inputs-after', ('tuple', [('str', "
                      '"\'x\'"), (\'dict\', [])]), (\'dict\', [])))',
 "prepend_dim/3/'points'": "(('ok', ('dict', [])), ('inputs-after', ('tuple', [('str', "
                           '"\'points\'"), (\'dict\', [])]), (\'dict\', [])))',
 "prepend_dim/3/['x', 'y']": "(('ok', ('dict', [])), ('inputs-after', ('tuple', [('list', [('str', "
                             '"\'x\'"), (\'str\', "\'y\'")]), (\'dict\', [])]), (\'dict\', [])))',
 'prepend_dim/3/None': "(('ok', ('dict', [])), ('inputs-after', ('tuple', [('NoneType', 'None'), "
                       "('dict', [])]), ('dict', [])))",
 'prepend_dim/3/1': "(('ok', ('dict', [])), ('inputs-after', ('tuple', [('int', '1'), ('dict', "
                    "[])]), ('dict', [])))",
 "prepend_dim/3/('a',)": "(('ok', ('dict', [])), ('inputs-after', ('tuple', [('tuple', [('str', "
                         '"\'a\'")]), (\'dict\', [])]), (\'dict\', [])))',
 "prepend_dim/4/'x'": '((\'ok\', (\'tuple\', [(\'str\', "\'x\'")])), (\'inputs-after\', '
                      '(\'tuple\', [(\'str\', "\'x\'"), (\'tuple\', [])]), (\'dict\', [])))',
 "prepend_dim/4/'points'": '((\'ok\', (\'tuple\', [(\'str\', "\'points\'")])), (\'inputs-after\', '
                           '(\'tuple\', [(\'str\', "\'points\'"), (\'tuple\', [])]), (\'dict\', '
                           '[])))',
 "prepend_dim/4/['x', 'y']": '((\'ok\', (\'tuple\', [(\'list\', [(\'str\', "\'x\'"), (\'str\', '
                             '"\'y\'")])])), (\'inputs-after\', (\'tuple\', [(\'list\', [(\'str\', '
                             '"\'x\'"), (\'str\', "\'y\'")]), (\'tuple\', [])]), (\'dict\', [])))',
 'prepend_dim/4/None': "(('ok', ('tuple', [('NoneType', 'None')])), ('inputs-after', ('tuple', "
                       "[('NoneType', 'None'), ('tuple', [])]), ('dict', [])))",
 'prepend_dim/4/1': "(('ok', ('tuple', [('int', '1')])), ('inputs-after', ('tuple', [('int', '1'), "
                    "('tuple', [])]), ('dict', [])))",
 "prepend_dim/4/('a',)": '((\'ok\', (\'tuple\', [(\'tuple\', [(\'str\', "\'a\'")])])), '
                         '(\'inputs-after\', (\'tuple\', [(\'tuple\', [(\'str\', "\'a\'")]), '
                         "('tuple', [])]), ('dict', [])))",
 "prepend_dim/5/'x'": '((\'ok\', (\'tuple\', [(\'str\', "\'x\'"), (\'int\', \'1\')])), '
                      '(\'inputs-after\', (\'tuple\', [(\'str\', "\'x\'"), (\'tuple\', [(\'int\', '
                      "'1')])]), ('dict', [])))",
 "prepend_dim/5/'points'": '((\'ok\', (\'tuple\', [(\'str\', "\'points\'"), (\'int\', \'1\')])), '
                           '(\'inputs-after\', (\'tuple\', [(\'str\', "\'points\'"), (\'tuple\', '
                           "[('int', '1')])]), ('dict', [])))",
 "prepend_dim/5/['x', 'y']": '((\'ok\', (\'tuple\', [(\'list\', [(\'str\', "\'x\'"), (\'str\', '
                             '"\'y\'")]), (\'int\', \'1\')])), (\'inputs-after\', (\'tuple\', '
                             '[(\'list\', [(\'str\', "\'x\'"), (\'str\', "\'y\'")]), (\'tuple\', '
                             "[('int', '1')])]), ('dict', [])))",
 'prepend_dim/5/None': "(('ok', ('tuple', [('NoneType', 'None'), ('int', '1')])), ('inputs-after', "
                       "('tuple', [('NoneType', 'None'), ('tuple', [('int', '1')])]), ('dict', "
                       '[])))',
 'prepend_dim/5/1': "(('ok', ('tuple', [('int', '1'), ('int', '1')])), ('inputs-after', ('tuple', "
                    "[('int', '1'), ('tuple', [('int', '1')])]), ('dict', [])))",
 "prepend_dim/5/('a',)": '((\'ok\', (\'tuple\', [(\'tuple\', [(\'str\', "\'a\'")]), (\'int\', '
                         "'1')])), ('inputs-after', ('tuple', [('tuple', [('str', "
                         '"\'a\'")]), (\'tuple\', [(\'int\', \'1\')])]), (\'dict\', [])))',
 "prepend_dim/6/'x'": '((\'ok\', (\'tuple\', [(\'str\', "\'x\'"), (\'int\', \'1\'), (\'dict\', '
                      "[]), ('int', '3')])), ('inputs-after', ('tuple', [('str', "
                      '"\'x\'"), (\'tuple\', [(\'int\', \'1\'), (\'dict\', []), (\'int\', '
                      "'3')])]), ('dict', [])))",
 "prepend_dim/6/'points'": '((\'ok\', (\'tuple\', [(\'str\', "\'points\'"), (\'int\', \'1\'), '
                           "('dict', []), ('int', '3')])), ('inputs-after', ('tuple', [('str', "
                           '"\'points\'"), (\'tuple\', [(\'int\', \'1\'), (\'dict\', []), '
                           "('int', '3')])]), ('dict', [])))",
 "prepend_dim/6/['x', 'y']": '((\'ok\', (\'tuple\', [(\'list\', [(\'str\', "\'x\'"), (\'str\', '
                             '"\'y\'")]), (\'int\', \'1\'), (\'dict\', []), (\'int\', \'3\')])), '
                             '(\'inputs-after\', (\'tuple\', [(\'list\', [(\'str\', "\'x\'"), '
                             '(\'str\', "\'y\'")]), (\'tuple\', [(\'int\', \'1\'), (\'dict\', []), '
                             "('int', '3')])]), ('dict', [])))",
 'prepend_dim/6/None': "(('ok', ('tuple', [('NoneType', 'None'), ('int', '1'), ('dict', []), "
                       "('int', '3')])), ('inputs-after', ('tuple', [('NoneType', 'None'), "
                       "('tuple', [('int', '1'), ('dict', []), ('int', '3')])]), ('dict', [])))",
 'prepend_dim/6/1': "(('ok', ('tuple', [('int', '1'), ('int', '1'), ('dict', []), ('int', '3')])), "
                    "('inputs-after', ('tuple', [('int', '1'), ('tuple', [('int', '1'), ('dict', "
                    "[]), ('int', '3')])]), ('dict', [])))",
 "prepend_dim/6/('a',)": '((\'ok\', (\'tuple\', [(\'tuple\', [(\'str\', "\'a\'")]), (\'int\', '
                         "'1'), ('dict', []), ('int', '3')])), ('inputs-after', ('tuple', "
                         '[(\'tuple\', [(\'str\', "\'a\'")]), (\'tuple\', [(\'int\', \'1\'), '
                         "('dict', []), ('int', '3')])]), ('dict', [])))",
 "prepend_dim/7/'x'": 'sha256[ok]:e0f86c755a238ef7dd5ed695e60e1ea204f22f0a26de2501b7ea6273b97cdd23:315',
 "prepend_dim/7/'points'": 'sha256[ok]:550c8617ca6a5e00d0b41cf2751d9d8e86802e3b2709163573ea88f94501eaf2:325',
 "prepend_dim/7/['x', 'y']": 'sha256[ok]:a28d0d34c0d719f3efed08f3bf60de752c365a7f382a63a431d106351c319dd0:371',
 'prepend_dim/7/None': 'sha256[ok]:1e9664bd570b771481f451b04685b8c3ce190f01edcfc7db3c04139c92cb6825:327',
 'prepend_dim/7/1': 'sha256[ok]:75416e78ef17fae33028072dad3bc735bef63c9bb004ba564f431cd60a3755a4:311',
 "prepend_dim/7/('a',)": 'sha256[ok]:4b8ee054161a95bb1e45295a22498ae3786803ad67496d1075eb52cf05a85e12:341',
 "prepend_dim/8/'x'": '((\'ok\', (\'tuple\', [(\'str\', "\'x\'"), (\'list\', [(\'int\', \'1\'), '
                      "('int', '2')]), ('dict', [])])), ('inputs-after', ('tuple', [('str', "
                      '"\'x\'"), (\'list\', [(\'int\', \'1\'), (\'int\', \'2\')])]), (\'dict\', '
                      '[])))',
 "prepend_dim/8/'points'": '((\'ok\', (\'tuple\', [(\'str\', "\'points\'"), (\'list\', [(\'int\', '
                           "'1'), ('int', '2')]), ('dict', [])])), ('inputs-after', ('tuple', "
                           '[(\'str\', "\'points\'"), (\'list\', [(\'int\', \'1\'), (\'int\', '
                           "'2')])]), ('dict', [])))",
 "prepend_dim/8/['x', 'y']": '((\'ok\', (\'tuple\', [(\'list\', [(\'str\', "\'x\'"), (\'str\', '
                             '"\'y\'")]), (\'list\', [(\'int\', \'1\'), (\'int\', \'2\')]), '
                             "('dict', [])])), ('inputs-after', ('tuple', [('list', [('str', "
                             '"\'x\'"), (\'str\', "\'y\'")]), (\'list\', [(\'int\', \'1\'), '
                             "('int', '2')])]), ('dict', [])))",
 'prepend_dim/8/None': "(('ok', ('tuple', [('NoneType', 'None'), ('list', [('int', '1'), ('int', "
                       "'2')]), ('dict', [])])), ('inputs-after', ('tuple', [('NoneType', 'None'), "
                       "('list', [('int', '1'), ('int', '2')])]), ('dict', [])))",
 'prepend_dim/8/1': "(('ok', ('tuple', [('int', '1'), ('list', [('int', '1'), ('int', '2')]), "
                    "('dict', [])])), ('inputs-after', ('tuple', [('int', '1'), ('list', [('int', "
                    "'1'), ('int', '2')])]), ('dict', [])))",
 "prepend_dim/8/('a',)": '((\'ok\', (\'tuple\', [(\'tuple\', [(\'str\', "\'a\'")]), (\'list\', '
                         "[('int', '1'), ('int', '2')]), ('dict', [])])), ('inputs-after', "
                         '(\'tuple\', [(\'tuple\', [(\'str\', "\'a\'")]), (\'list\', [(\'int\', '
                         "'1'), ('int', '2')])]), ('dict', [])))",
 "prepend_dim/9/'x'": '((\'ok\', (\'tuple\', [(\'str\', "\'x\'"), (\'list\', []), (\'dict\', '
                      '[])])), (\'inputs-after\', (\'tuple\', [(\'str\', "\'x\'"), (\'list\', '
                      "[])]), ('dict', [])))",
 "prepend_dim/9/'points'": '((\'ok\', (\'tuple\', [(\'str\', "\'points\'"), (\'list\', []), '
                           "('dict', [])])), ('inputs-after', ('tuple', [('str', "
                           '"\'points\'"), (\'list\', [])]), (\'dict\', [])))',
 "prepend_dim/9/['x', 'y']": '((\'ok\', (\'tuple\', [(\'list\', [(\'str\', "\'x\'"), (\'str\', '
                             '"\'y\'")]), (\'list\', []), (\'dict\', [])])), (\'inputs-after\', '
                             '(\'tuple\', [(\'list\', [(\'str\', "\'x\'"), (\'str\', "\'y\'")]), '
                             "('list', [])]), ('dict', [])))",
 'prepend_dim/9/None': "(('ok', ('tuple', [('NoneType', 'None'), ('list', []), ('dict', [])])), "
                       "('inputs-after', ('tuple', [('NoneType', 'None'), ('list', [])]), ('dict', "
                       '[])))',
 'prepend_dim/9/1': "(('ok', ('tuple', [('int', '1'), ('list', []), ('dict', [])])), "
                    "('inputs-after', ('tuple', [('int', '1'), ('list', [])]), ('dict', [])))",
 "prepend_dim/9/('a',)": '((\'ok\', (\'tuple\', [(\'tuple\', [(\'str\', "\'a\'")]), (\'list\', '
                         "[]), ('dict', [])])), ('inputs-after', ('tuple', [('tuple', [('str', "
                         '"\'a\'")]), (\'list\', [])]), (\'dict\', [])))',
 "prepend_dim/10/'x'": '((\'ok\', (\'tuple\', [(\'str\', "\'x\'"), (\'NoneType\', \'None\'), '
                       '(\'dict\', [])])), (\'inputs-after\', (\'tuple\', [(\'str\', "\'x\'"), '
                       "('NoneType', 'None')]), ('dict', [])))",
 "prepend_dim/10/'points'": '((\'ok\', (\'tuple\', [(\'str\', "\'points\'"), (\'NoneType\', '
                            "'None'), ('dict', [])])), ('inputs-after', ('tuple', [('str', "
                            '"\'points\'"), (\'NoneType\', \'None\')]), (\'dict\', [])))',
 "prepend_dim/10/['x', 'y']": '((\'ok\', (\'tuple\', [(\'list\', [(\'str\', "\'x\'"), (\'str\', '
                              '"\'y\'")]), (\'NoneType\', \'None\'), (\'dict\', [])])), '
                              '(\'inputs-after\', (\'tuple\', [(\'list\', [(\'str\', "\'x\'"), '
                              '(\'str\', "\'y\'")]), (\'NoneType\', \'None\')]), (\'dict\', [])))',
 'prepend_dim/10/None': "(('ok', ('tuple', [('NoneType', 'None'), ('NoneType', 'None'), ('dict', "
                        "[])])), ('inputs-after', ('tuple', [('NoneType', 'None'), ('NoneType', "
                        "'None')]), ('dict', [])))",
 'prepend_dim/10/1': "(('ok', ('tuple', [('int', '1'), ('NoneType', 'None'), ('dict', [])])), "
                     "('inputs-after', ('tuple', [('int', '1'), ('NoneType', 'None')]), ('dict', "
                     '[])))',
 "prepend_dim/10/('a',)": '((\'ok\', (\'tuple\', [(\'tuple\', [(\'str\', "\'a\'")]), '
                          "('NoneType', 'None'), ('dict', [])])), ('inputs-after', ('tuple', "
                          '[(\'tuple\', [(\'str\', "\'a\'")]), (\'NoneType\', \'None\')]), '
                          "('dict', [])))",
 "prepend_dim/11/'x'": '((\'ok\', (\'tuple\', [(\'str\', "\'x\'"), (\'str\', "\'abc\'"), '
                       '(\'dict\', [])])), (\'inputs-after\', (\'tuple\', [(\'str\', "\'x\'"), '
                       '(\'str\', "\'abc\'")]), (\'dict\', [])))',
 "prepend_dim/11/'points'": '((\'ok\', (\'tuple\', [(\'str\', "\'points\'"), (\'str\', "\'abc\'"), '
                            "('dict', [])])), ('inputs-after', ('tuple', [('str', "
                            '"\'points\'"), (\'str\', "\'abc\'")]), (\'dict\', [])))',
 "prepend_dim/11/['x', 'y']": '((\'ok\', (\'tuple\', [(\'list\', [(\'str\', "\'x\'"), (\'str\', '
                              '"\'y\'")]), (\'str\', "\'abc\'"), (\'dict\', [])])), '
                              '(\'inputs-after\', (\'tuple\', [(\'list\', [(\'str\', "\'x\'"), '
                              '(\'str\', "\'y\'")]), (\'str\', "\'abc\'")]), (\'dict\', [])))',
 'prepend_dim/11/None': '((\'ok\', (\'tuple\', [(\'NoneType\', \'None\'), (\'str\', "\'abc\'"), '
                        "('dict', [])])), ('inputs-after', ('tuple', [('NoneType', 'None'), "
                        '(\'str\', "\'abc\'")]), (\'dict\', [])))',
 'prepend_dim/11/1': '((\'ok\', (\'tuple\', [(\'int\', \'1\'), (\'str\', "\'abc\'"), (\'dict\', '
                     "[])])), ('inputs-after', ('tuple', [('int', '1'), ('str', "
                     '"\'abc\'")]), (\'dict\', [])))',
 "prepend_dim/11/('a',)": '((\'ok\', (\'tuple\', [(\'tuple\', [(\'str\', "\'a\'")]), (\'str\', '
                          '"\'abc\'"), (\'dict\', [])])), (\'inputs-after\', (\'tuple\', '
                          '[(\'tuple\', [(\'str\', "\'a\'")]), (\'str\', "\'abc\'")]), (\'dict\', '
                          '[])))',
 "prepend_dim/12/'x'": '((\'ok\', (\'tuple\', [(\'str\', "\'x\'"), (\'float\', \'1.5\'), '
                       '(\'dict\', [])])), (\'inputs-after\', (\'tuple\', [(\'str\', "\'x\'"), '
                       "('float', '1.5')]), ('dict', [])))",
 "prepend_dim/12/'points'": '((\'ok\', (\'tuple\', [(\'str\', "\'points\'"), (\'float\', \'1.5\'), '
                            "('dict', [])])), ('inputs-after', ('tuple', [('str', "
                            '"\'points\'"), (\'float\', \'1.5\')]), (\'dict\', [])))',
 "prepend_dim/12/['x', 'y']": '((\'ok\', (\'tuple\', [(\'list\', [(\'str\', "\'x\'"), (\'str\', '
                              '"\'y\'")]), (\'float\', \'1.5\'), (\'dict\', [])])), '
                              '(\'inputs-after\', (\'tuple\', [(\'list\', [(\'str\', "\'x\'"), '
                              '(\'str\', "\'y\'")]), (\'float\', \'1.5\')]), (\'dict\', [])))',
 'prepend_dim/12/None': "(('ok', ('tuple', [('NoneType', 'None'), ('float', '1.5'), ('dict', "
                        "[])])), ('inputs-after', ('tuple', [('NoneType', 'None'), ('float', "
                        "'1.5')]), ('dict', [])))",
 'prepend_dim/12/1': "(('ok', ('tuple', [('int', '1'), ('float', '1.5'), ('dict', [])])), "
                     "('inputs-after', ('tuple', [('int', '1'), ('float', '1.5')]), ('dict', [])))",
 "prepend_dim/12/('a',)": '((\'ok\', (\'tuple\', [(\'tuple\', [(\'str\', "\'a\'")]), (\'float\', '
                          "'1.5'), ('dict', [])])), ('inputs-after', ('tuple', [('tuple', [('str', "
                          '"\'a\'")]), (\'float\', \'1.5\')]), (\'dict\', [])))',
 "prepend_dim/13/'x'": '((\'ok\', (\'tuple\', [(\'str\', "\'x\'"), (\'ndarray\', \'int64\', (3,), '
                       "('list', [('int', '0'), ('int', '1'), ('int', '2')])), ('dict', [])])), "
                       '(\'inputs-after\', (\'tuple\', [(\'str\', "\'x\'"), (\'ndarray\', '
                       "'int64', (3,), ('list', [('int', '0'), ('int', '1'), ('int', '2')]))]), "
                       "('dict', [])))",
 "prepend_dim/13/'points'": '((\'ok\', (\'tuple\', [(\'str\', "\'points\'"), (\'ndarray\', '
                            "'int64', (3,), ('list', [('int', '0'), ('int', '1'), ('int', '2')])), "
                            "('dict', [])])), ('inputs-after', ('tuple', [('str', "
                            '"\'points\'"), (\'ndarray\', \'int64\', (3,), (\'list\', [(\'int\', '
                            "'0'), ('int', '1'), ('int', '2')]))]), ('dict', [])))",
 "prepend_dim/13/['x', 'y']": 'sha256[ok]:97ace8fd1f9b4b01c0731d2474db60062d55065caf4243891ee68f9181d6a45d:332',
 'prepend_dim/13/None': "(('ok', ('tuple', [('NoneType', 'None'), ('ndarray', 'int64', (3,), "
                        "('list', [('int', '0'), ('int', '1'), ('int', '2')])), ('dict', [])])), "
                        "('inputs-after', ('tuple', [('NoneType', 'None'), ('ndarray', 'int64', "
                        "(3,), ('list', [('int', '0'), ('int', '1'), ('int', '2')]))]), ('dict', "
                        '[])))',
 'prepend_dim/13/1': "(('ok', ('tuple', [('int', '1'), ('ndarray', 'int64', (3,), ('list', "
                     "[('int', '0'), ('int', '1'), ('int', '2')])), ('dict', [])])), "
                     "('inputs-after', ('tuple', [('int', '1'), ('ndarray', 'int64', (3,), "
                     "('list', [('int', '0'), ('int', '1'), ('int', '2')]))]), ('dict', [])))",
 "prepend_dim/13/('a',)": 'sha256[ok]:5749ae47c31135cbbbc38d3fb100a49d4f7e645f5fbb90549ada4691fa4f2d46:302',
 "prepend_dim/14/'x'": 'sha256[ok]:5cff55302fc3a6c38762e13253329181da87c4dffeb50e32eea35c6e793d9bee:725',
 "prepend_dim/14/'points'": 'sha256[ok]:615490c134168dab622e31a988f395741aa598672c1d5d48958398a6b56c2597:750',
 "prepend_dim/14/['x', 'y']": 'sha256[ok]:06cbe14b103574c20164593f9a41707d64fa2b27b59f2eddfe178375e16f2d43:865',
 'prepend_dim/14/None': 'sha256[ok]:ff09656cfe3180b5b1249e289eda07ec82fe08f6e8d10afd25b514ce9ec1e2ab:755',
 'prepend_dim/14/1': 'sha256[ok]:ce9012cc0470eed7321dfb9c08ba3cbd66c6b528d11a7f735b0c76eb183c9b38:715',
 "prepend_dim/14/('a',)": 'sha256[ok]:a94fdbe78da5aa865addc80d95a923cc55c6918d69c363d46fe8ecba20c525cd:790',
 "prepend_dim/15/'x'": 'sha256[ok]:e39b6547edc9ac36630a7a914e58447bfc0c25adec467f93f1db6e2ee97cb563:478',
 "prepend_dim/15/'points'": 'sha256[ok]:62640ac1ae4b3364d484f67577c696102d9605468e31f1d4fec11ed2dda12659:493',
 "prepend_dim/15/['x', 'y']": 'sha256[ok]:1e7995f90b99a2fb459676f5666045c6a3f46af5ab76787adf5c1a6cfeb1d149:562',
 'prepend_dim/15/None': 'sha256[ok]:90a8dd471a303946b70ed15ce60998320096a85a7059c352ccba851a28f3b7af:496',
 'prepend_dim/15/1': 'sha256[ok]:01e6d80920898ae981a29814e06c59dbf40c37e9cb44e765a7a4c4f529100e46:472',
 "prepend_dim/15/('a',)": 'sha256[ok]:0d28d7683d770f8ecd58960ad482c8343be708c06c18b4a042a2c599e6159b5d:517',
 "prepend_dim/16/'x'": 'sha256[ok]:3d4a44a63e394644e846095ac1f44e57b120d4c09b707b1f3ef40f08d7fb5afe:341',
 "prepend_dim/16/'points'": 'sha256[ok]:816c5631b7f591f5f7f346e908fc50a8e79fd005a5cd07bd24aab1347a2a7f84:356',
 "prepend_dim/16/['x', 'y']": 'sha256[ok]:502811bf7c29800be7f9edf05917ce22a2807137aaf9651218fec49f555b8430:425',
 'prepend_dim/16/None': 'sha256[ok]:82bebd5886755763b09feaeb13c05e68b6b87e934c5a1806c8c6feeafd7fa451:359',
 'prepend_dim/16/1': 'sha256[ok]:882d4f7e463f1d8804715f5b6a312d96ac2c1ac88dc4cb95dfc8bd057bedce72:335',
 "prepend_dim/16/('a',)": 'sha256[ok]:083b121750750f1fc8795e2a7394219d0f31d24bd33464a0aa8486dd59304fde:380',
 "prepend_dim/17/'x'": '((\'ok\', (\'dict\', [((\'str\', "\'a\'"), (\'dict\', [((\'str\', '
                       '"\'b\'"), (\'tuple\', [(\'str\', "\'x\'"), (\'int\', \'1\'), (\'dict\', '
                       '[])]))]))])), (\'inputs-after\', (\'tuple\', [(\'str\', "\'x\'"), '
                       '(\'dict\', [((\'str\', "\'a\'"), (\'OrderedDict\', [((\'str\', "\'b\'"), '
                       "('tuple', [('int', '1'), ('dict', [])]))]))])]), ('dict', [])))",
 "prepend_dim/17/'points'": 'sha256[ok]:747a1e8712aa84392a2b0689d46bcdbb14da78c893b3d7a01556e892583e9480:304',
 "prepend_dim/17/['x', 'y']": 'sha256[ok]:08fc665c2d7901faac11e6c562da6c1a56b612b2ff2c8878b1fe8ba98e1ff972:350',
 'prepend_dim/17/None': 'sha256[ok]:94743609a2aaaecab7ef72a70cde1103ead415d8abc246ef46993f388bd9c9bb:306',
 'prepend_dim/17/1': '((\'ok\', (\'dict\', [((\'str\', "\'a\'"), (\'dict\', [((\'str\', "\'b\'"), '
                     "('tuple', [('int', '1'), ('int', '1'), ('dict', [])]))]))])), "
                     "('inputs-after', ('tuple', [('int', '1'), ('dict', [(('str', "
                     '"\'a\'"), (\'OrderedDict\', [((\'str\', "\'b\'"), (\'tuple\', [(\'int\', '
                     "'1'), ('dict', [])]))]))])]), ('dict', [])))",
 "prepend_dim/17/('a',)": 'sha256[ok]:865206743172b1223be17554cb287ddee219c33b9e895b51a99f5ddaaa408276:320',
 "prepend_dim/18/'x'": '((\'ok\', (\'tuple\', [(\'str\', "\'x\'"), (\'dict\', [((\'str\', '
                       '"\'a\'"), (\'int\', \'1\'))]), (\'dict\', [])])), (\'inputs-after\', '
                       '(\'tuple\', [(\'str\', "\'x\'"), (\'tuple\', [(\'dict\', [((\'str\', '
                       '"\'a\'"), (\'int\', \'1\'))]), (\'dict\', [])])]), (\'dict\', [])))',
 "prepend_dim/18/'points'": '((\'ok\', (\'tuple\', [(\'str\', "\'points\'"), (\'dict\', '
                            '[((\'str\', "\'a\'"), (\'int\', \'1\'))]), (\'dict\', [])])), '
                            '(\'inputs-after\', (\'tuple\', [(\'str\', "\'points\'"), (\'tuple\', '
                            '[(\'dict\', [((\'str\', "\'a\'"), (\'int\', \'1\'))]), (\'dict\', '
                            "[])])]), ('dict', [])))",
 "prepend_dim/18/['x', 'y']": '((\'ok\', (\'tuple\', [(\'list\', [(\'str\', "\'x\'"), (\'str\', '
                              '"\'y\'")]), (\'dict\', [((\'str\', "\'a\'"), (\'int\', \'1\'))]), '
                              "('dict', [])])), ('inputs-after', ('tuple', [('list', [('str', "
                              '"\'x\'"), (\'str\', "\'y\'")]), (\'tuple\', [(\'dict\', [((\'str\', '
                              '"\'a\'"), (\'int\', \'1\'))]), (\'dict\', [])])]), (\'dict\', [])))',
 'prepend_dim/18/None': "(('ok', ('tuple', [('NoneType', 'None'), ('dict', [(('str', "
                        '"\'a\'"), (\'int\', \'1\'))]), (\'dict\', [])])), (\'inputs-after\', '
                        "('tuple', [('NoneType', 'None'), ('tuple', [('dict', [(('str', "
                        '"\'a\'"), (\'int\', \'1\'))]), (\'dict\', [])])]), (\'dict\', [])))',
 'prepend_dim/18/1': '((\'ok\', (\'tuple\', [(\'int\', \'1\'), (\'dict\', [((\'str\', "\'a\'"), '
                     "('int', '1'))]), ('dict', [])])), ('inputs-after', ('tuple', [('int', '1'), "
                     '(\'tuple\', [(\'dict\', [((\'str\', "\'a\'"), (\'int\', \'1\'))]), '
                     "('dict', [])])]), ('dict', [])))",
 "prepend_dim/18/('a',)": '((\'ok\', (\'tuple\', [(\'tuple\', [(\'str\', "\'a\'")]), (\'dict\', '
                          '[((\'str\', "\'a\'"), (\'int\', \'1\'))]), (\'dict\', [])])), '
                          '(\'inputs-after\', (\'tuple\', [(\'tuple\', [(\'str\', "\'a\'")]), '
                          '(\'tuple\', [(\'dict\', [((\'str\', "\'a\'"), (\'int\', \'1\'))]), '
                          "('dict', [])])]), ('dict', [])))",
 "prepend_dim/19/'x'": '((\'ok\', (\'tuple\', [(\'str\', "\'x\'"), (\'list\', [(\'tuple\', '
                       "[('int', '1'), ('dict', [])]), ('tuple', [('int', '2'), ('dict', [])])]), "
                       '(\'dict\', [])])), (\'inputs-after\', (\'tuple\', [(\'str\', "\'x\'"), '
                       "('list', [('tuple', [('int', '1'), ('dict', [])]), ('tuple', [('int', "
                       "'2'), ('dict', [])])])]), ('dict', [])))",
 "prepend_dim/19/'points'": 'sha256[ok]:c7f883a14a524aaf1f3ba4c268fcd01de184de7881f194b3753177bae24ce073:310',
 "prepend_dim/19/['x', 'y']": 'sha256[ok]:ebacdbbc7857dc978ffa9c11c35a0f7a5441578ce001078eb5c701e8f285592d:356',
 'prepend_dim/19/None': 'sha256[ok]:0b294724bf62dacb95fbcae15cc0479989a6019dd0199bce6e88f3f3e83ca30a:312',
 'prepend_dim/19/1': "(('ok', ('tuple', [('int', '1'), ('list', [('tuple', [('int', '1'), ('dict', "
                     "[])]), ('tuple', [('int', '2'), ('dict', [])])]), ('dict', [])])), "
                     "('inputs-after', ('tuple', [('int', '1'), ('list', [('tuple', [('int', '1'), "
                     "('dict', [])]), ('tuple', [('int', '2'), ('dict', [])])])]), ('dict', [])))",
 "prepend_dim/19/('a',)": 'sha256[ok]:f424a32003a0668feda118b8d1e6105f4a2eb3876a039e6006ef3c1d0be325b3:326',
 "prepend_dim/20/'x'": 'sha256[ok]:b17621416397a7e3326dd0211fd782a11d5a513936c7860de6c8683d1f613b8f:314',
 "prepend_dim/20/'points'": 'sha256[ok]:0dffa0663faefe04581b8efbb79a0f73f8209282ac2cf90dfda225c86f69d931:329',
 "prepend_dim/20/['x', 'y']": 'sha256[ok]:b8c9d2246643a915c284469b78fdd20388f361045fb58ae8c86ea8300c0f2ca9:398',
 'prepend_dim/20/None': 'sha256[ok]:5fbffe7c1d413fadd92a32cccd6a1eb33370a1bce8cd86818800e4bb030aa907:332',
 'prepend_dim/20/1': 'sha256[ok]:83d80d5e27315e44ce06e67f6003e05cdef96d3463da826435718e03e7e39d9b:308',
 "prepend_dim/20/('a',)": 'sha256[ok]:905cc8c80e2ec9e9137a49b91a45d3ca5d149af98f5700060aef48d04cd9bd60:353',
 'transform_section/0': 'sha256[ok]:a7ccff8ad2768f299fab0348a5c781ae1d6d85ccdd3b5781c7eb6275116a4685:1028',
 'transform_section/1': 'sha256[ok]:d5eaa270b229328ecb47071152e60081673a35a123687c655d7d7434115edc11:505',
 'transform_section/2': 'sha256[ok]:3b499927e258f96d3931e7f92286e6400063b204c3c18ba29778b5c6250c3463:749',
 'transform_section/3': "(('ok', ('dict', [])), ('inputs-after', ('tuple', [('dict', [])]), "
                        "('dict', [])))",
 'transform_section/4': '((\'ok\', (\'dict\', [((\'str\', "\'roll\'"), (\'tuple\', [(\'list\', '
                        '[]), (\'dict\', [])])), ((\'str\', "\'roll_error\'"), (\'list\', []))])), '
                        '(\'inputs-after\', (\'tuple\', [(\'dict\', [((\'str\', "\'roll\'"), '
                        '(\'list\', [])), ((\'str\', "\'roll_error\'"), (\'list\', []))])]), '
                        "('dict', [])))",
 'transform_section/5': 'sha256[raises]:b6a0c26853a1a93def99b073334f7e6ff5d0cf074a4e720fbea33f98f5dcc8d2:417',
 'transform_section/6': 'sha256[ok]:8ac15a29aa240b888be46f97991b50c442a382d5456a19ef60cdee9121c4ae27:438',
 'transform_section/7': '((\'raises\', \'TypeError\', "\'int\' object is not iterable"), '
                        '(\'inputs-after\', (\'tuple\', [(\'dict\', [((\'str\', "\'roll\'"), '
                        "('list', [('tuple', [('int', '1'), ('dict', [])]), ('int', '2')]))])]), "
                        "('dict', [])))",
 'transform_section/8': "(('raises', 'ValueError', 'too many values to unpack (expected 2)'), "
                        '(\'inputs-after\', (\'tuple\', [(\'dict\', [((\'str\', "\'roll\'"), '
                        "('list', [('tuple', [('int', '1'), ('dict', []), ('int', '3')])]))])]), "
                        "('dict', [])))",
 'transform_section/9': '((\'raises\', \'TypeError\', "\'int\' object is not iterable"), '
                        '(\'inputs-after\', (\'tuple\', [(\'dict\', [((\'str\', "\'roll_error\'"), '
                        "('int', '1'))])]), ('dict', [])))",
 'transform_section/10': '((\'raises\', \'TypeError\', "\'NoneType\' object is not iterable"), '
                         "('inputs-after', ('tuple', [('dict', [(('str', "
                         '"\'pitch_error\'"), (\'NoneType\', \'None\'))])]), (\'dict\', [])))',
 'transform_section/11': '((\'ok\', (\'dict\', [((\'str\', "\'yaw_error\'"), (\'list\', '
                         "[('bool', 'True'), ('bool', 'True'), ('bool', 'True')]))])), "
                         '(\'inputs-after\', (\'tuple\', [(\'dict\', [((\'str\', "\'yaw_error\'"), '
                         '(\'str\', "\'abc\'"))])]), (\'dict\', [])))',
 'transform_section/12': '((\'ok\', (\'dict\', [((\'str\', "\'yaw_error\'"), (\'list\', '
                         "[('bool', 'False'), ('bool', 'True')]))])), ('inputs-after', ('tuple', "
                         '[(\'dict\', [((\'str\', "\'yaw_error\'"), (\'tuple\', [(\'int\', \'0\'), '
                         "('int', '1')]))])]), ('dict', [])))",
 'transform_section/13': '((\'ok\', (\'dict\', [((\'str\', "\'yaw_error\'"), (\'list\', '
                         "[('bool', 'True'), ('bool', 'False')]))])), ('inputs-after', ('tuple', "
                         '[(\'dict\', [((\'str\', "\'yaw_error\'"), (\'dict\', [((\'str\', '
                         '"\'a\'"), (\'int\', \'0\')), ((\'str\', "\'\'"), (\'int\', '
                         "'1'))]))])]), ('dict', [])))",
 'transform_section/14': '((\'ok\', (\'dict\', [((\'str\', "\'yaw_error\'"), (\'list\', '
                         "[('bool', 'False'), ('bool', 'True'), ('bool', 'True')]))])), "
                         '(\'inputs-after\', (\'tuple\', [(\'dict\', [((\'str\', "\'yaw_error\'"), '
                         "('ndarray', 'int64', (3,), ('list', [('int', '0'), ('int', '1'), ('int', "
                         "'2')])))])]), ('dict', [])))",
 'transform_section/15': '((\'ok\', (\'dict\', [((\'str\', "\'yaw_error\'"), (\'list\', '
                         "[('bool', 'False'), ('bool', 'True'), ('bool', 'True')]))])), "
                         '(\'inputs-after\', (\'tuple\', [(\'dict\', [((\'str\', "\'yaw_error\'"), '
                         "('other', 'builtins', 'range', 'range(0, 3)'))])]), ('dict', [])))",
 'transform_section/16': 'sha256[ok]:f6a7dec256f0589d5947d4f01d28ccbe0a84a1f7aa776bbc074a3724a64b472a:483',
 'transform_section/17': 'sha256[ok]:9b73ab3092165b475b7e2f5467fa3b249a5a884dfb6cf2214b36d88c46fe79d2:410',
 'transform_section/18': '((\'raises\', \'AttributeError\', "\'list\' object has no attribute '
                         '\'items\'"), (\'inputs-after\', (\'tuple\', [(\'list\', [(\'tuple\', '
                         '[(\'str\', "\'roll\'"), (\'list\', [])])])]), (\'dict\', [])))',
 'transform_section/19': '((\'raises\', \'AttributeError\', "\'NoneType\' object has no attribute '
                         '\'items\'"), (\'inputs-after\', (\'tuple\', [(\'NoneType\', \'None\')]), '
                         "('dict', [])))",
 'transform_attitude/test-transformed': 'sha256[ok]:e86159b407f44168b5b4cbb333389dadab84cd262202bc79449f345e12adfcff:1398',
 'transform_attitude/aliasing/test-transformed': 'sha256[ok]:be5a44130ec20a40a02e106ffdc20b732d8901984f9879768471751e0bfc3765:1023',
 'transform_attitude/test-time': 'sha256[ok]:d4635ba473cec681dc32de59489fe3f4d0244c2d3bb512c6d09c5d52b51cde1e:1497',
 'transform_attitude/aliasing/test-time': 'sha256[ok]:cb864c460397edab47dbae96085e7e9a77670592267bcf099ae5f688e886237c:1137',
 'transform_attitude/full-1': 'sha256[ok]:f63532779d375128f867c0e329a3cdc56d6f350523bc4247275579b8439be55d:3548',
 'transform_attitude/aliasing/full-1': 'sha256[ok]:a4b39e980894f1d9761ccd46dab13fa5c642ddf065256c1d894c0c7335b27bbd:1679',
 'transform_attitude/full-3': 'sha256[ok]:3bd7bca4b1a7595568c11c7ff4f572893a30e60b4fca4d3e3c1515a65e4f6794:6286',
 'transform_attitude/aliasing/full-3': 'sha256[ok]:56bc1265d30b066607c19498f86354b598f6c1a7fcb72a9a13af1d207f7bf5d8:3859',
 'transform_attitude/no-time': 'sha256[ok]:f627ac9936b7a9db7dd85d167e0ff6a2a8b904dec7f6d4e9964baf780206e5d6:4281',
 'transform_attitude/aliasing/no-time': 'sha256[ok]:a43c4023ee5286c0ff0dcf3d5eba6b8682756d9caa825f838c04ac54c2944775:2443',
 'transform_attitude/no-rates': 'sha256[ok]:a235feb29c9b60679b052a1fed512bb560fcf4bd0d7f0f6133bc507fdb83f3b5:3035',
 'transform_attitude/aliasing/no-rates': 'sha256[ok]:00403ab985794b3b28cb813b81bdd7efbbe7026f574099e82d5c93ebaaac9d88:1813',
 'transform_attitude/only-rates': 'sha256[ok]:00debd6929daf9748a06b2cffaf48ce5f75514d3109ccfe7cf137e72020ba69d:2295',
 'transform_attitude/aliasing/only-rates': 'sha256[ok]:92dedba15ed7a720d913a1ab9d8bda708141bf67e1c8fd9ee71e9c58d973c961:1387',
 'transform_attitude/rates-first': 'sha256[ok]:2509ce89e457a9b9b63e91b34ab578d6ada3909e987c296e378439e082f5b48c:4917',
 'transform_attitude/aliasing/rates-first': 'sha256[ok]:96beb5b292f00da76f1d20cb4aa0b56d1c00ffadbda11a9c1128bdbcd27b874d:2769',
 'transform_attitude/extra-section': 'sha256[ok]:2185cabfeb28d9ba462a3a7781b5a59bc70c341e2f506a1f1db28d6694be342b:5569',
 'transform_attitude/aliasing/extra-section': 'sha256[ok]:6584f38bb95c9a091e1c243a75836fb6b067f7d49baf5470c848e3168f81769b:3423',
 'transform_attitude/scalar-sections': 'sha256[raises]:311509d0c7246df13b3b71be1b6c97f86c9a06fec67ec3de56097a6d78e0fffe:468',
 'transform_attitude/aliasing/scalar-sections': 'sha256[raises]:311509d0c7246df13b3b71be1b6c97f86c9a06fec67ec3de56097a6d78e0fffe:468',
 'transform_attitude/ragged': 'sha256[ok]:e68054d3c86e5b02e85b9751882741196b4457bbaa5df8151c5e41ac2b072f06:4327',
 'transform_attitude/aliasing/ragged': 'sha256[ok]:f66331a2c2043da74a8e85c1094149c3f967bd2579920a8e12ba05f8b68610da:2291',
 'transform_attitude/bad-time': 'sha256[raises]:7c62d3380ca5ba84dce1f95edf2612c7ce7a6ce6b4f802cef0923ed655ff9253:432',
 'transform_attitude/aliasing/bad-time': 'sha256[raises]:7c62d3380ca5ba84dce1f95edf2612c7ce7a6ce6b4f802cef0923ed655ff9253:432',
 'transform_attitude/time-extra-key': 'sha256[raises]:c4c4c8fa21bbbaaf737aed91ec6ac8bda684857cd117558c9247f8b8cc779610:429',
 'transform_attitude/aliasing/time-extra-key': 'sha256[raises]:c4c4c8fa21bbbaaf737aed91ec6ac8bda684857cd117558c9247f8b8cc779610:429',
 'transform_attitude/time-missing-key': 'sha256[raises]:acc708396526da5b8b2002803e2fd43e6a0cb5f4ac90015af9d205b7a06f4b04:356',
 'transform_attitude/aliasing/time-missing-key': 'sha256[raises]:acc708396526da5b8b2002803e2fd43e6a0cb5f4ac90015af9d205b7a06f4b04:356',
 'transform_attitude/section-not-dict': 'sha256[raises]:cd997e1d0e45afae79ee0c50cde9fc5bf80210b4cd397313504da86367f5c383:477',
 'transform_attitude/aliasing/section-not-dict': 'sha256[raises]:cd997e1d0e45afae79ee0c50cde9fc5bf80210b4cd397313504da86367f5c383:477',
 'transform_attitude/empty': '((\'raises\', \'AttributeError\', "\'list\' object has no attribute '
                             '\'keys\'"), (\'inputs-after\', (\'tuple\', [(\'dict\', [((\'str\', '
                             '"\'preamble\'"), (\'dict\', [])), ((\'str\', '
                             '"\'number_of_points\'"), (\'int\', \'0\')), ((\'str\', '
                             '"\'data_points\'"), (\'list\', [])), ((\'str\', "\'blanks\'"), '
                             '(\'str\', "\'\'"))])]), (\'dict\', [])))',
 'transform_attitude/aliasing/empty': '((\'raises\', \'AttributeError\', "\'list\' object has no '
                                      'attribute \'keys\'"), (\'inputs-after\', (\'tuple\', '
                                      '[(\'dict\', [((\'str\', "\'preamble\'"), (\'dict\', [])), '
                                      '((\'str\', "\'number_of_points\'"), (\'int\', \'0\')), '
                                      '((\'str\', "\'data_points\'"), (\'list\', [])), ((\'str\', '
                                      '"\'blanks\'"), (\'str\', "\'\'"))])]), (\'dict\', [])))',
 'transform_attitude/empty-dicts': "(('ok', ('Group', '/', None, ('dict', []), [])), "
                                   "('inputs-after', ('tuple', [('dict', [(('str', "
                                   '"\'preamble\'"), (\'dict\', [])), ((\'str\', '
                                   '"\'number_of_points\'"), (\'int\', \'0\')), ((\'str\', '
                                   '"\'data_points\'"), (\'list\', [(\'dict\', []), (\'dict\', '
                                   '[])])), ((\'str\', "\'blanks\'"), (\'str\', "\'\'"))])]), '
                                   "('dict', [])))",
 'transform_attitude/aliasing/empty-dicts': 'sha256[ok]:7b093e55e2c46f1b6f129e6e34159e98144d1b936113719e94edc62101fe6a96:403',
 'transform_attitude/not-dicts': 'sha256[raises]:4f3e07daf13cd1712eae54168c2862e38d88d1bd515dd32561670d0dec3820a5:320',
 'transform_attitude/aliasing/not-dicts': 'sha256[raises]:4f3e07daf13cd1712eae54168c2862e38d88d1bd515dd32561670d0dec3820a5:320',
 'transform_attitude/mixed': 'sha256[raises]:ca0a90eb2bd677ff6ac9f61611a8c98f2740abb356222affbd41c83fd6fd0631:1396',
 'transform_attitude/aliasing/mixed': 'sha256[raises]:ca0a90eb2bd677ff6ac9f61611a8c98f2740abb356222affbd41c83fd6fd0631:1396',
 'transform_attitude/none': 'sha256[raises]:56ed2ef8ce1cebbe76d2ed56d4244151bbba173842347be8d74702e6165c79da:306',
 'transform_attitude/aliasing/none': 'sha256[raises]:56ed2ef8ce1cebbe76d2ed56d4244151bbba173842347be8d74702e6165c79da:306',
 'transform_attitude/dict': 'sha256[ok]:8030c417401d567ccf64ca59d1bbe0cfe521440a8c50b6e1a468e0b200c2b60a:1141',
 'transform_attitude/aliasing/dict': 'sha256[ok]:b84881962bf006ca848f7b46e44c808ee548cd8009ad9762084c9978e4d31429:798',
 'transform_attitude/tuple': 'sha256[raises]:571d460bf1730c9a1e2470fb11cb654c91e779d0af0bc8b3c205527bac65bb93:1384',
 'transform_attitude/aliasing/tuple': 'sha256[raises]:571d460bf1730c9a1e2470fb11cb654c91e779d0af0bc8b3c205527bac65bb93:1384',
 'transform_attitude/missing-key': '((\'raises\', \'KeyError\', "\'data_points\'"), '
                                   "('inputs-after', ('tuple', [('dict', [(('str', "
                                   '"\'number_of_points\'"), (\'int\', \'0\'))])]), (\'dict\', '
                                   '[])))',
 'transform_attitude/empty-mapping': '((\'raises\', \'KeyError\', "\'data_points\'"), '
                                     "('inputs-after', ('tuple', [('dict', [])]), ('dict', [])))",
 'transform_attitude/mapping-list': 'sha256[raises]:02a5f0879313386995220068dd62ba6db2403f3401ad6fc9c43b8e17bad0cf32:1224',
 'transform_attitude/mapping-empty-list': "(('raises', 'TypeError', 'list indices must be integers "
                                          "or slices, not str'), ('inputs-after', ('tuple', "
                                          "[('list', [])]), ('dict', [])))",
 'transform_attitude/mapping-none': '((\'raises\', \'TypeError\', "\'NoneType\' object is not '
                                    'subscriptable"), (\'inputs-after\', (\'tuple\', '
                                    "[('NoneType', 'None')]), ('dict', [])))",
 'transform_attitude/string': '((\'raises\', \'TypeError\', "string indices must be integers, not '
                              '\'str\'"), (\'inputs-after\', (\'tuple\', [(\'str\', '
                              '"\'data_points\'")]), (\'dict\', [])))',
 'transform_attitude/ordered-dict': 'sha256[ok]:7c95744456ad956c6eff920f0841ed37d1886ed5ca0d60a3c6fe3ca8bb0acefa:4800',
 'records/0/transform_attitude': 'sha256[ok]:f7c7c8dec6e8fffc09aedbfdc3f648362232e0a81f06b3afcee6f11476bcfe4a:6820',
 'records/0/aliasing': 'sha256[ok]:305526ff75b6fa63a6cb29e0ba49a8aa20e3d9e40f1ee015b4c0fe469c7b7802:4284',
 'records/0/transform_time/0': "(('ok', ('npscalar', 'timedelta64', 'timedelta64[ns]', "
                               "'8402876936000000')), ('inputs-after', ('tuple', [('dict', "
                               '[((\'str\', "\'day_of_year\'"), (\'int\', \'97\')), ((\'str\', '
                               '"\'millisecond_of_day\'"), (\'int\', \'22076936\'))])]), '
                               "('dict', [])))",
 'records/0/transform_time/1': "(('ok', ('npscalar', 'timedelta64', 'timedelta64[ns]', "
                               "'11172817706000000')), ('inputs-after', ('tuple', [('dict', "
                               '[((\'str\', "\'day_of_year\'"), (\'int\', \'129\')), ((\'str\', '
                               '"\'millisecond_of_day\'"), (\'int\', \'27217706\'))])]), '
                               "('dict', [])))",
 'records/0/transform_metadata': 'sha256[ok]:963f8944703918297be98a54043b9647cd21cdfc163733165badd92d4b73a10e:119221',
 'records/0/transform_metadata/attitude-only': 'sha256[ok]:99bedbf51681155cde685f01b662be88ceccb7485a81321a2bcef6ed62943096:6946',
 'records/1/transform_attitude': 'sha256[ok]:26c3b0a036e8d6752fa138c88f76d872f44d9931e668e2f12077af1170fbafdd:3926',
 'records/1/aliasing': 'sha256[ok]:4a3af432d55b34e8bbcbfe82d97b6b62b83ec99fd49458c81f5481dfce48c7dc:2020',
 'records/1/transform_time/0': "(('ok', ('npscalar', 'timedelta64', 'timedelta64[ns]', "
                               "'12318479902000000')), ('inputs-after', ('tuple', [('dict', "
                               '[((\'str\', "\'day_of_year\'"), (\'int\', \'142\')), ((\'str\', '
                               '"\'millisecond_of_day\'"), (\'int\', \'49679902\'))])]), '
                               "('dict', [])))",
 'records/1/transform_metadata': 'sha256[ok]:ccfc362cd151089ae8fd082e2bc4f8daf99c80be02e81d2ce5e18dc27beef89b:116398',
 'records/1/transform_metadata/attitude-only': 'sha256[ok]:634e6f40cb7334b06d9b6f82be0a817c22646bd6fdec0515d298bbcbbb7720f1:4052',
 'records/2/transform_attitude': 'sha256[raises]:a160201e3762dcfe6aaa7b6a4f2e2746eec5b530561c683bcdf1ca428832fde9:597',
 'records/2/aliasing': 'sha256[raises]:a160201e3762dcfe6aaa7b6a4f2e2746eec5b530561c683bcdf1ca428832fde9:597',
 'records/2/transform_metadata': 'sha256[raises]:405aaa5a6899bb541b0ec55ade2868eade1250772d12038aaada6460f7df80fe:73291',
 'records/2/transform_metadata/attitude-only': 'sha256[raises]:d413ccda7ed2513817f205285224d4a342c8cd24a6cf56a657767ecb25c3bda5:634',
 'records/3/transform_attitude': 'sha256[ok]:0f28c81027588e90a34133fbb3ab7b58b6c48e4505a528ae335259a0b6e2e842:12560',
 'records/3/aliasing': 'sha256[ok]:907ed224d5f22934d70227f7875bf098e71e016b9f096ba5de08691eccf9706a:8786',
 'records/3/transform_time/0': "(('ok', ('npscalar', 'timedelta64', 'timedelta64[ns]', "
                               "'31421950422000000')), ('inputs-after', ('tuple', [('dict', "
                               '[((\'str\', "\'day_of_year\'"), (\'int\', \'363\')), ((\'str\', '
                               '"\'millisecond_of_day\'"), (\'int\', \'58750422\'))])]), '
                               "('dict', [])))",
 'records/3/transform_time/1': "(('ok', ('npscalar', 'timedelta64', 'timedelta64[ns]', "
                               "'22017465767000000')), ('inputs-after', ('tuple', [('dict', "
                               '[((\'str\', "\'day_of_year\'"), (\'int\', \'254\')), ((\'str\', '
                               '"\'millisecond_of_day\'"), (\'int\', \'71865767\'))])]), '
                               "('dict', [])))",
 'records/3/transform_metadata': 'sha256[ok]:552f6da4398bfe6cad4363ab066f7cb78c0fa83e762131710dbb2a80ef59a434:124558',
 'records/3/transform_metadata/attitude-only': 'sha256[ok]:ce689e029232c4a28020216975e70a42303a387c72af2db248b0aeb152bb4d9c:12686',
 'records/4/transform_attitude': 'sha256[ok]:8b3069ef62fb7e8a371c38aa11b53459ddff5856bc88c28ce6fa7d73e034393a:33698',
 'records/4/aliasing': 'sha256[ok]:8b1a19c9b7d9f1e2cbfe5c562fa75bfe924f7f4acf0cf6cc0500b1d739a3b8b3:25459',
 'records/4/transform_time/0': "(('ok', ('npscalar', 'timedelta64', 'timedelta64[ns]', "
                               "'8973747057000000')), ('inputs-after', ('tuple', [('dict', "
                               '[((\'str\', "\'day_of_year\'"), (\'int\', \'103\')), ((\'str\', '
                               '"\'millisecond_of_day\'"), (\'int\', \'74547057\'))])]), '
                               "('dict', [])))",
 'records/4/transform_time/1': "(('ok', ('npscalar', 'timedelta64', 'timedelta64[ns]', "
                               "'5816837082000000')), ('inputs-after', ('tuple', [('dict', "
                               '[((\'str\', "\'day_of_year\'"), (\'int\', \'67\')), ((\'str\', '
                               '"\'millisecond_of_day\'"), (\'int\', \'28037082\'))])]), '
                               "('dict', [])))",
 'records/4/transform_metadata': 'sha256[ok]:21b72be42a8681e8749628536efe6296a9afa22bf91cf8c90ec451eee7cad8d9:144283',
 'records/4/transform_metadata/attitude-only': 'sha256[ok]:0ebb73b292dddc3c2e53acd53a903faf409e2408a088947fc3a86818662af1cb:33824',
 'records/5/transform_attitude': 'sha256[ok]:476b98eebdb4bd3294449196c95fa6dbd8100bf59993d15e6a1226bc52a033bf:5215',
 'records/5/aliasing': 'sha256[ok]:053862975aceee0af2b3e250aaae3936f32935c07b71b9e9488d28ef105270ff:3069',
 'records/5/transform_time/0': "(('ok', ('npscalar', 'timedelta64', 'timedelta64[ns]', "
                               "'19816240883000000')), ('inputs-after', ('tuple', [('dict', "
                               '[((\'str\', "\'day_of_year\'"), (\'int\', \'229\')), ((\'str\', '
                               '"\'millisecond_of_day\'"), (\'int\', \'30640883\'))])]), '
                               "('dict', [])))",
 'records/5/transform_time/1': "(('ok', ('npscalar', 'timedelta64', 'timedelta64[ns]', "
                               "'18583021102000000')), ('inputs-after', ('tuple', [('dict', "
                               '[((\'str\', "\'day_of_year\'"), (\'int\', \'215\')), ((\'str\', '
                               '"\'millisecond_of_day\'"), (\'int\', \'7021102\'))])]), (\'dict\', '
                               '[])))',
 'records/5/transform_metadata': 'sha256[ok]:a6866ed0f8ac09affd76f847a15677a967a5ab4a86fa314671ec0d3709818f0f:110462',
 'records/5/transform_metadata/attitude-only': 'sha256[ok]:58d640b171139dcb9c04a336f1a6bfb409067119fbc27c7f177cfeb2a22f797c:5341'}
# --- END EXPECTED ---


def test_equivalence():
    assert main(build_cases, EXPECTED, __file__) == 0


if __name__ == "__main__":
    sys.exit(main(build_cases, EXPECTED, __file__))
