"""Equivalence check for refactoring 1 (ceos_alos2/sar_image/io.py).

Run as:  cd <worktree> && PYTHONPATH=<worktree> python _eq/1/equiv.py
Passes on clean HEAD and with patch.diff applied; the expected values were
recorded from the unchanged code.
"""

import hashlib
import io as stdio
import struct
from types import SimpleNamespace

from ceos_alos2.sar_image import io

HEADER_SIZE = 720
PROCESSED_PREFIX = 192  # bytes of a processed data record before the pixel data
SIGNAL_PREFIX = 544  # same for a signal data record


def make_descriptor(n_records, record_size):
    buf = bytearray(b" " * HEADER_SIZE)
    buf[0:12] = struct.pack(">IBBBBI", 1, 50, 192, 18, 18, HEADER_SIZE)
    buf[180:186] = f"{n_records:6d}".encode()
    buf[186:192] = f"{record_size:6d}".encode()
    buf[236:244] = f"{n_records:8d}".encode()
    buf[248:256] = f"{4:8d}".encode()
    buf[400:428] = b"UNSIGNED INTEGER*2".ljust(28)
    buf[428:432] = b"IU2 "
    return bytes(buf)


def make_record(k, record_type, record_size):
    buf = bytearray((i * 31 + k * 17 + 5) % 251 for i in range(record_size))
    buf[0:12] = struct.pack(">IBBBBI", k + 2, 50, record_type, 18, 20, record_size)
    buf[12:16] = struct.pack(">I", k + 1)
    buf[36:48] = struct.pack(">III", 2020, 100 + k, 1000 * k + 5)
    if record_type == 10:
        buf[84:92] = struct.pack(">Q", 3_600_000_000 + k)
    return bytes(buf)


def make_file(n_records, record_type, record_size):
    return make_descriptor(n_records, record_size) + b"".join(
        make_record(k, record_type, record_size) for k in range(n_records)
    )


class LoggingFile:
    """file-like object recording every call made on it"""

    def __init__(self, content):
        self._f = stdio.BytesIO(content)
        self.log = []

    def read(self, size=-1):
        pos = self._f.tell()
        data = self._f.read(size)
        self.log.append(("read", pos, size, len(data)))
        return data

    def __getattr__(self, name):
        def method(*args):
            self.log.append((name, *args))
            return getattr(self._f, name)(*args)

        return method


def digest(obj):
    return hashlib.sha256(repr(obj).encode()).hexdigest()


def outcome(func, *args, **kwargs):
    try:
        return ("ok", func(*args, **kwargs))
    except Exception as e:  # noqa: BLE001
        return ("raised", type(e).__name__)


def run_read_metadata(content, rpc):
    f = LoggingFile(content)
    kind, value = outcome(io.read_metadata, f, rpc)
    return kind, value, f.log


# --------------------------------------------------------------- read_metadata
def check_read_metadata():
    # 5 processed data records of 200 bytes (8 bytes of pixel data each)
    content = make_file(5, 11, 200)
    expected_positions = [
        (720, 912, 920),
        (920, 1112, 1120),
        (1120, 1312, 1320),
        (1320, 1512, 1520),
        (1520, 1712, 1720),
    ]
    expected_logs = {
        1: [("read", 0, 720, 720)] + [("read", 720 + 200 * i, 200, 200) for i in range(5)],
        2: [
            ("read", 0, 720, 720),
            ("read", 720, 400, 400),
            ("read", 1120, 400, 400),
            ("read", 1520, 200, 200),
        ],
        5: [("read", 0, 720, 720), ("read", 720, 1000, 1000)],
        1024: [("read", 0, 720, 720), ("read", 720, 1000, 1000)],
    }
    digests = set()
    for rpc, expected_log in expected_logs.items():
        kind, (header, metadata), log = run_read_metadata(content, rpc)
        assert kind == "ok"
        assert log == expected_log, (rpc, log)
        assert type(header) is dict and type(metadata) is list
        assert header["number_of_sar_data_records"] == 5
        assert header["sar_data_record_length"] == 200
        positions = [(m["record_start"], m["data"]["start"], m["data"]["stop"]) for m in metadata]
        assert positions == expected_positions, (rpc, positions)
        assert [m["data"]["size"] for m in metadata] == [8] * 5
        assert [m["sar_image_data_line_number"] for m in metadata] == [1, 2, 3, 4, 5]
        assert [m["preamble"]["record_sequence_number"] for m in metadata] == [2, 3, 4, 5, 6]
        digests.add((digest(header), digest(metadata)))
    # identical result, whatever the chunking
    assert digests == {
        (
            "efea04564b16f8ac4e8e925c37bacf925f29d57463cb772842ee233ea84ddadb",
            "c4cc55756438787379069998bfe875435f6a0e5fa43a8a7eed2594b727272c5c",
        )
    }, digests

    # default value of records_per_chunk
    f = LoggingFile(content)
    header, metadata = io.read_metadata(f)
    assert f.log == expected_logs[1024]
    assert len(metadata) == 5

    # 3 signal data records of 560 bytes
    content = make_file(3, 10, 560)
    kind, (header, metadata), log = run_read_metadata(content, 2)
    assert log == [("read", 0, 720, 720), ("read", 720, 1120, 1120), ("read", 1840, 560, 560)]
    positions = [(m["record_start"], m["data"]["start"], m["data"]["stop"]) for m in metadata]
    assert positions == [(720, 1264, 1280), (1280, 1824, 1840), (1840, 2384, 2400)]
    expected = "7cc007a50130d62df0c36cbd315231a5a23c74d5b198c22c53f1c278cc513abf"
    assert digest(metadata) == expected, digest(metadata)


def check_read_metadata_edge_cases():
    # no data records: only the descriptor is read
    kind, (header, metadata), log = run_read_metadata(make_file(0, 11, 200), 3)
    assert (kind, metadata, log) == ("ok", [], [("read", 0, 720, 720)])

    # blank record count (decoded as -1): nothing to read either
    content = bytearray(make_file(0, 11, 200))
    content[180:186] = b" " * 6
    kind, (header, metadata), log = run_read_metadata(bytes(content), 3)
    assert (kind, metadata, log) == ("ok", [], [("read", 0, 720, 720)])
    assert header["number_of_sar_data_records"] == -1

    content = make_file(5, 11, 200)
    # records_per_chunk=None is what `open_image` passes by default
    assert run_read_metadata(content, None) == ("raised", "TypeError", [("read", 0, 720, 720)])
    assert run_read_metadata(content, 0) == (
        "raised",
        "ZeroDivisionError",
        [("read", 0, 720, 720)],
    )
    # negative chunk size: `range(n_chunks)` is empty, so no data records are read
    kind, (header, metadata), log = run_read_metadata(content, -2)
    assert (kind, metadata, log) == ("ok", [], [("read", 0, 720, 720)])
    assert run_read_metadata(content, "2") == ("raised", "TypeError", [("read", 0, 720, 720)])

    # truncated file: the second chunk is short
    kind, value, log = run_read_metadata(content[:-150], 2)
    assert (kind, value) == ("raised", "ValueError")
    assert log == [
        ("read", 0, 720, 720),
        ("read", 720, 400, 400),
        ("read", 1120, 400, 400),
        ("read", 1520, 200, 50),
    ], log

    # unknown record type in the second chunk
    broken = bytearray(content)
    broken[720 + 2 * 200 + 5] = 99
    kind, value, log = run_read_metadata(bytes(broken), 2)
    assert (kind, value) == ("raised", "ValueError")
    assert log == [("read", 0, 720, 720), ("read", 720, 400, 400), ("read", 1120, 400, 400)]

    # empty file
    kind, value, log = run_read_metadata(b"", 2)
    assert kind == "raised" and value == "StreamError", value
    assert log == [("read", 0, 720, 0)]


# -------------------------------------------------------------- adjust_offsets
def make_records(*positions):
    return [
        SimpleNamespace(record_start=a, data=SimpleNamespace(start=b, stop=c))
        for a, b, c in positions
    ]


def positions_of(records):
    return [(r.record_start, r.data.start, r.data.stop) for r in records]


def check_adjust_offsets():
    records = make_records((1, 4, 6), (6, 9, 11))
    actual = io.adjust_offsets(records, 12)
    assert type(actual) is list
    assert positions_of(actual) == [(13, 16, 18), (18, 21, 23)]
    # adjusted in place, same objects in the same order
    assert all(a is b for a, b in zip(actual, records)) and len(actual) == len(records)

    assert io.adjust_offsets([], 5) == []
    assert io.adjust_offsets(iter(()), 5) == []

    # any iterable is accepted, keyword form as used by `read_metadata`
    records = make_records((3, 5, 9), (9, 11, 15), (15, 17, 21))
    actual = io.adjust_offsets((r for r in records), offset=-3)
    assert positions_of(actual) == [(0, 2, 6), (6, 8, 12), (12, 14, 18)]

    # failure in the middle: earlier records (and earlier fields) are already adjusted
    records = make_records((1, 2, 3), (4, 5, 6), (7, 8, 9))
    del records[1].data.stop
    assert outcome(io.adjust_offsets, records, 10) == ("raised", "AttributeError")
    assert positions_of([records[0], records[2]]) == [(11, 12, 13), (7, 8, 9)]
    assert (records[1].record_start, records[1].data.start) == (14, 15)

    assert outcome(io.adjust_offsets, make_records((1, 2, 3)), "x") == ("raised", "TypeError")
    assert outcome(io.adjust_offsets, None, 1) == ("raised", "TypeError")


# ----------------------------------------------------------------- parse_chunk
def check_parse_chunk():
    content = b"".join(make_record(k, 11, 200) for k in range(3))
    records = io.parse_chunk(content, 200)
    assert type(records) is list and len(records) == 3
    assert [(r.record_start, r.data.start, r.data.size, r.data.stop) for r in records] == [
        (0, 192, 8, 200),
        (200, 392, 8, 400),
        (400, 592, 8, 600),
    ]
    assert outcome(io.parse_chunk, content, 199) == ("raised", "ValueError")
    assert outcome(io.parse_chunk, content, 0) == ("raised", "ZeroDivisionError")
    assert outcome(io.parse_chunk, b"", 200) == ("raised", "StreamError")


if __name__ == "__main__":
    check_read_metadata()
    check_read_metadata_edge_cases()
    check_adjust_offsets()
    check_parse_chunk()
    print("equiv 1: OK")
