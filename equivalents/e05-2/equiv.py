"""Equivalence check for refactoring 2 (``parse_summary`` in ceos_alos2/summary.py).

Run as

    cd <worktree> && PYTHONPATH=<worktree> /venv/bin/python _eq/2/equiv.py

The expected values below were recorded with the UNCHANGED code (clean HEAD); the
script has to pass both with and without ``patch.diff`` applied.
"""

from ceos_alos2 import summary

try:
    ExceptionGroup
except NameError:  # pragma: no cover
    from exceptiongroup import ExceptionGroup


def describe(exc):
    if isinstance(exc, ExceptionGroup):
        return (
            type(exc).__name__,
            exc.message,
            [describe(sub) for sub in exc.exceptions],
        )
    return (type(exc).__name__, exc.args)


def outcome(func, *args):
    try:
        # repr of a dict also records the order of the keys
        return repr(("ok", func(*args)))
    except Exception as e:
        return repr(("raise", describe(e)))


many_lines = "\n".join(
    f'Img_Key{n}="{n}"' if n not in (0, 3, 9, 10, 11) else f"broken {n}" for n in range(13)
)

CASES = [
    # well-formed
    'Scs_SceneShift="0"\nPds_ProductID="WWDR1.1__D"',
    'Scs_SceneShift="0"\nPds_ProductID="WWDR1.1__D"\n',
    'Scs_SceneShift="0"\r\nPds_ProductID="WWDR1.1__D"\r\n',
    "",
    'Odi_A=""',
    # interleaved sections: order of first appearance
    'Pds_A="1"\nScs_B="2"\nPds_C="3"\nOdi_D="4"\nScs_E="5"',
    # repeated keyword: last value, first position
    'Pds_A="1"\nPds_B="2"\nPds_A="3"',
    # sections differing only in case are NOT merged, the later one wins as a whole
    'Pds_A="1"\nPds_B="2"\nPDS_C="3"\nScs_X="9"\npds_D="4"',
    'PDS_C="3"\nScs_X="9"\nPds_A="1"',
    # odd keywords / values
    'Pdi_ProductFileName01="VOL-ALOS2225333200-180726-WWDR1.1__D"',
    'Ach_Key="a"b"',
    'Ach_Key="a="b""',
    'Ach_="x"',
    'Ach__="x"',
    'Ach_A=B="x"',
    'Ach_A="x"\x0bAch_B="y"\x0cAch_C="z"',  # splitlines also splits at \v and \f
    # malformed lines
    'Scs_SceneShift"0"\nPdsProductID="WWDR1.1__D"',
    'Scs_SceneShift="0"\n\nPds_ProductID="WWDR1.1__D"',
    'Scs_SceneShift="0"\n Pds_ProductID="WWDR1.1__D"',
    'Scs_SceneShift="0" \nPds_ProductID="WWDR1.1__D"',
    'Sc_SceneShift="0"',
    'Scss_SceneShift="0"',
    'S1s_SceneShift="0"',
    'Scs_SceneShift="0',
    "Scs_SceneShift='0'",
    "\n",
    "\n\n\nScs_A=\"1\"\nnope",
    many_lines,
    # wrong types
    b'Scs_SceneShift="0"',
    None,
    ['Scs_SceneShift="0"'],
]

# BEGIN EXPECTED (recorded on clean HEAD)
EXPECTED = [
    "('ok', {'scs': {'SceneShift': '0'}, 'pds': {'ProductID': 'WWDR1.1__D'}})",
    "('ok', {'scs': {'SceneShift': '0'}, 'pds': {'ProductID': 'WWDR1.1__D'}})",
    "('ok', {'scs': {'SceneShift': '0'}, 'pds': {'ProductID': 'WWDR1.1__D'}})",
    "('ok', {})",
    "('ok', {'odi': {'A': ''}})",
    "('ok', {'pds': {'A': '1', 'C': '3'}, 'scs': {'B': '2', 'E': '5'}, 'odi': {'D': '4'}})",
    "('ok', {'pds': {'A': '3', 'B': '2'}})",
    "('ok', {'pds': {'D': '4'}, 'scs': {'X': '9'}})",
    "('ok', {'pds': {'A': '1'}, 'scs': {'X': '9'}})",
    "('ok', {'pdi': {'ProductFileName01': 'VOL-ALOS2225333200-180726-WWDR1.1__D'}})",
    '(\'ok\', {\'ach\': {\'Key\': \'a"b\'}})',
    '(\'ok\', {\'ach\': {\'Key\': \'a="b"\'}})',
    "('ok', {'ach': {'': 'x'}})",
    "('ok', {'ach': {'_': 'x'}})",
    "('ok', {'ach': {'A=B': 'x'}})",
    "('ok', {'ach': {'A': 'x', 'B': 'y', 'C': 'z'}})",
    "('raise', ('ExceptionGroup', 'failed to parse the summary', [('ValueError', ('line 00: invalid line',)), ('ValueError', ('line 01: invalid line',))]))",
    "('raise', ('ExceptionGroup', 'failed to parse the summary', [('ValueError', ('line 01: invalid line',))]))",
    "('raise', ('ExceptionGroup', 'failed to parse the summary', [('ValueError', ('line 01: invalid line',))]))",
    "('raise', ('ExceptionGroup', 'failed to parse the summary', [('ValueError', ('line 00: invalid line',))]))",
    "('raise', ('ExceptionGroup', 'failed to parse the summary', [('ValueError', ('line 00: invalid line',))]))",
    "('raise', ('ExceptionGroup', 'failed to parse the summary', [('ValueError', ('line 00: invalid line',))]))",
    "('raise', ('ExceptionGroup', 'failed to parse the summary', [('ValueError', ('line 00: invalid line',))]))",
    "('raise', ('ExceptionGroup', 'failed to parse the summary', [('ValueError', ('line 00: invalid line',))]))",
    "('raise', ('ExceptionGroup', 'failed to parse the summary', [('ValueError', ('line 00: invalid line',))]))",
    "('raise', ('ExceptionGroup', 'failed to parse the summary', [('ValueError', ('line 00: invalid line',))]))",
    "('raise', ('ExceptionGroup', 'failed to parse the summary', [('ValueError', ('line 00: invalid line',)), ('ValueError', ('line 01: invalid line',)), ('ValueError', ('line 02: invalid line',)), ('ValueError', ('line 04: invalid line',))]))",
    "('raise', ('ExceptionGroup', 'failed to parse the summary', [('ValueError', ('line 00: invalid line',)), ('ValueError', ('line 03: invalid line',)), ('ValueError', ('line 09: invalid line',)), ('ValueError', ('line 10: invalid line',)), ('ValueError', ('line 11: invalid line',))]))",
    "('raise', ('TypeError', ('cannot use a string pattern on a bytes-like object',)))",
    '(\'raise\', (\'AttributeError\', ("\'NoneType\' object has no attribute \'splitlines\'",)))',
    '(\'raise\', (\'AttributeError\', ("\'list\' object has no attribute \'splitlines\'",)))',
]
# END EXPECTED

LINE_CASES = [
    'Scs_SceneShift="0"',
    'Pds_ProductID="WWDR1.1__D"',
    'Scs_SceneShift"0"',
    'PdsProductID="WWDR1.1__D"',
    'Ach_Key="a"b"',
    'Ach_A=B="x"',
    'Ach_A="x"\n',
    "",
    None,
]

# BEGIN LINES (recorded on clean HEAD)
EXPECTED_LINES = [
    "('ok', {'section': 'Scs', 'keyword': 'SceneShift', 'value': '0'})",
    "('ok', {'section': 'Pds', 'keyword': 'ProductID', 'value': 'WWDR1.1__D'})",
    "('raise', ('ValueError', ('invalid line',)))",
    "('raise', ('ValueError', ('invalid line',)))",
    '(\'ok\', {\'section\': \'Ach\', \'keyword\': \'Key\', \'value\': \'a"b\'})',
    "('ok', {'section': 'Ach', 'keyword': 'A=B', 'value': 'x'})",
    "('raise', ('ValueError', ('invalid line',)))",
    "('raise', ('ValueError', ('invalid line',)))",
    '(\'raise\', (\'TypeError\', ("expected string or bytes-like object, got \'NoneType\'",)))',
]
# END LINES


def observe():
    return [outcome(summary.parse_summary, content) for content in CASES]


def observe_lines():
    return [outcome(summary.parse_line, line) for line in LINE_CASES]


RECORDED = {"EXPECTED": ("EXPECTED", observe), "LINES": ("EXPECTED_LINES", observe_lines)}

if __name__ == "__main__":
    for cases, observed, expected in [
        (CASES, observe(), EXPECTED),
        (LINE_CASES, observe_lines(), EXPECTED_LINES),
    ]:
        assert len(observed) == len(expected), (len(observed), len(expected))
        for case, actual, wanted in zip(cases, observed, expected):
            assert actual == wanted, f"{case!r}:\n  actual:   {actual}\n  expected: {wanted}"

    # the exceptions in the group are the (mutated) exceptions raised for the lines,
    # one per malformed line and in the order of the lines
    try:
        summary.parse_summary(many_lines)
    except ExceptionGroup as group:
        assert [e.args for e in group.exceptions] == [
            (f"line {n:02d}: invalid line",) for n in (0, 3, 9, 10, 11)
        ]
        assert all(type(e) is ValueError for e in group.exceptions)
    else:
        raise AssertionError("no exception group")

    # every section is a fresh dict (not shared between calls or sections)
    first = summary.parse_summary('Pds_A="1"\nScs_A="1"')
    assert first["pds"] == first["scs"] and first["pds"] is not first["scs"]

    print(f"ok: {len(CASES)} summaries, {len(LINE_CASES)} lines")
